// Command instrument rewrites, in place, the listed packages of a scratch
// copy of dominikh/go-tools so that every source of nondeterminism the
// verified properties depend on goes through package verifsim (see
// /verif/DESIGN.md §2.1). It never touches /repo itself.
//
// Exit status: 0 ok; 2 instrumentation incomplete (a construct in an
// instrumented package has no rewrite) or any other trouble.
package main

import (
	"bytes"
	"encoding/json"
	"flag"
	"fmt"
	"go/ast"
	"go/format"
	"go/token"
	"go/types"
	"os"
	"path/filepath"
	"sort"
	"strings"

	"golang.org/x/tools/go/ast/astutil"
	"golang.org/x/tools/go/packages"
)

const (
	simPath   = "honnef.co/go/tools/internal/verifsim"
	simosPath = "honnef.co/go/tools/internal/verifsim/simos"
	hookPath  = "honnef.co/go/tools/internal/verifhook"
)

type rules struct {
	fs      bool            // os.* file functions and os.File -> simos
	clock   bool            // time.Now -> verifsim.Now
	rand    bool            // math/rand.Intn -> verifsim.RandIntn
	conc    bool            // go, channels, select, sync.Mutex/Once/WaitGroup, sync/atomic
	maps    bool            // range over map, maps.Keys/Values
	procs   bool            // runtime.GOMAXPROCS(0) -> verifsim.Procs()
	graph   bool            // loader.Graph -> verifhook.Graph
	stdio   bool            // os.Stdout/os.Stderr -> verifsim.Stdout()/Stderr()
	cmdline bool            // package lintcmd: cache.Default() -> cache.VerifDefault(), computeSalt() -> verifSalt(), os.Environ() -> verifEnviron(): the per-OS-process inputs of Command.Execute become per-simulated-process
	yieldAt []string        // "Recv.Func": a scheduling point is inserted at function entry (pre-emption points inside long sequential code)
	regist  []string        // composite literal types whose address is registered for canonical map keys
	skip    map[string]bool // file base names not to touch
}

var plan = map[string]rules{
	"honnef.co/go/tools/lintcmd/cache":     {fs: true, clock: true, skip: map[string]bool{"prog.go": true}},
	"honnef.co/go/tools/internal/renameio": {fs: true, rand: true},
	"honnef.co/go/tools/internal/robustio": {fs: true},
	"honnef.co/go/tools/internal/sync":     {conc: true},
	"honnef.co/go/tools/lintcmd/runner":    {fs: true, conc: true, maps: true, procs: true, graph: true},
	"honnef.co/go/tools/lintcmd":           {conc: true, maps: true, stdio: true, cmdline: true},
	"honnef.co/go/tools/go/ir": {conc: true, maps: true, procs: true, regist: []string{"task"},
		yieldAt: []string{"builder.buildFunction", "builder.stmt", "builder.buildParamsOnly", "builder.buildWrapper", "builder.buildBound", "builder.buildInstantiationWrapper", "builder.buildFromSyntax", "builder.buildYieldFunc", "builder.buildPackageInit", "Function.finishBody", "Function.done", "Function.startBody"}},
	"honnef.co/go/tools/unused": {maps: true},
	// ParseDirectives ranges over an ast.CommentMap: the order of the
	// directives ends up in the cached results, hence in their content hash
	// and file name
	"honnef.co/go/tools/analysis/lint": {maps: true},
}

var simosNames = map[string]bool{
	"Stat": true, "Lstat": true, "MkdirAll": true, "Mkdir": true, "Open": true, "OpenFile": true,
	"Create": true, "CreateTemp": true, "ReadFile": true, "WriteFile": true, "Remove": true,
	"RemoveAll": true, "Rename": true, "Chtimes": true, "Truncate": true, "File": true,
}

type report struct {
	Packages    []string       `json:"packages"`
	Rewrites    map[string]int `json:"rewrites"`
	MapSites    []string       `json:"map_sites"`
	Unsupported []string       `json:"unsupported"`
	Files       int            `json:"files"`
}

var rep = report{Rewrites: map[string]int{}}

func unsupported(fset *token.FileSet, pos token.Pos, what string) {
	rep.Unsupported = append(rep.Unsupported, fmt.Sprintf("%s: %s", fset.Position(pos), what))
}

func main() {
	dir := flag.String("dir", "", "root of the scratch copy (rewritten in place)")
	out := flag.String("report", "", "write a JSON report here")
	only := flag.String("only", "", "comma separated subset of package paths (default: all planned)")
	flag.Parse()
	if *dir == "" {
		fmt.Fprintln(os.Stderr, "usage: instrument -dir <scratch copy>")
		os.Exit(2)
	}
	var patterns []string
	for p := range plan {
		if *only != "" && !strings.Contains(","+*only+",", ","+p+",") {
			continue
		}
		patterns = append(patterns, p)
	}
	sort.Strings(patterns)
	cfg := &packages.Config{
		Mode: packages.NeedName | packages.NeedSyntax | packages.NeedTypes | packages.NeedTypesInfo | packages.NeedFiles | packages.NeedCompiledGoFiles | packages.NeedImports,
		Dir:  *dir,
	}
	pkgs, err := packages.Load(cfg, patterns...)
	if err != nil {
		fmt.Fprintln(os.Stderr, "instrument: load:", err)
		os.Exit(2)
	}
	bad := false
	for _, p := range pkgs {
		for _, e := range p.Errors {
			fmt.Fprintln(os.Stderr, "instrument: package error:", e)
			bad = true
		}
	}
	if bad {
		os.Exit(2)
	}
	for _, p := range pkgs {
		r, ok := plan[p.PkgPath]
		if !ok {
			continue
		}
		rep.Packages = append(rep.Packages, p.PkgPath)
		for i, f := range p.Syntax {
			name := p.CompiledGoFiles[i]
			if r.skip[filepath.Base(name)] {
				continue
			}
			rw := &rewriter{pkg: p, file: f, r: r, fset: p.Fset}
			if rw.rewrite() {
				var buf bytes.Buffer
				if err := format.Node(&buf, p.Fset, f); err != nil {
					fmt.Fprintf(os.Stderr, "instrument: printing %s: %v\n", name, err)
					os.Exit(2)
				}
				if err := os.WriteFile(name, buf.Bytes(), 0666); err != nil {
					fmt.Fprintln(os.Stderr, "instrument:", err)
					os.Exit(2)
				}
				rep.Files++
			}
		}
	}
	sort.Strings(rep.MapSites)
	if *out != "" {
		b, _ := json.MarshalIndent(rep, "", " ")
		os.WriteFile(*out, b, 0666)
	}
	if *only == "" {
		// the entry point of a simulated linter process relies on these
		for _, must := range []string{"cache.Default", "computeSalt", "os.Environ", "loader.Graph"} {
			if rep.Rewrites[must] == 0 {
				rep.Unsupported = append(rep.Unsupported, "expected call "+must+"() not found in the packages it is redirected in")
			}
		}
	}
	if len(rep.Unsupported) > 0 {
		for _, u := range rep.Unsupported {
			fmt.Fprintln(os.Stderr, "instrument: unsupported construct:", u)
		}
		os.Exit(2)
	}
}

type rewriter struct {
	pkg     *packages.Package
	file    *ast.File
	r       rules
	fset    *token.FileSet
	changed bool
	needSim bool
	needOS  bool
	needHk  bool
	tmp     int
}

func (rw *rewriter) fresh(prefix string) *ast.Ident {
	rw.tmp++
	return ast.NewIdent(fmt.Sprintf("_vs%s%d", prefix, rw.tmp))
}

func (rw *rewriter) sim(name string) *ast.SelectorExpr {
	rw.needSim = true
	rw.changed = true
	return &ast.SelectorExpr{X: ast.NewIdent("verifsim"), Sel: ast.NewIdent(name)}
}

func (rw *rewriter) simCall(name string, args ...ast.Expr) *ast.CallExpr {
	rep.Rewrites[name]++
	return &ast.CallExpr{Fun: rw.sim(name), Args: args}
}

// pkgOf returns the import path if e is an identifier naming an imported
// package.
func (rw *rewriter) pkgOf(e ast.Expr) string {
	id, ok := e.(*ast.Ident)
	if !ok {
		return ""
	}
	if pn, ok := rw.pkg.TypesInfo.Uses[id].(*types.PkgName); ok {
		return pn.Imported().Path()
	}
	return ""
}

func (rw *rewriter) typeOf(e ast.Expr) types.Type {
	if tv, ok := rw.pkg.TypesInfo.Types[e]; ok {
		return tv.Type
	}
	if id, ok := e.(*ast.Ident); ok {
		if o := rw.pkg.TypesInfo.ObjectOf(id); o != nil {
			return o.Type()
		}
	}
	return nil
}

func isSimCall(e ast.Expr, name string) (*ast.CallExpr, bool) {
	c, ok := e.(*ast.CallExpr)
	if !ok {
		return nil, false
	}
	s, ok := c.Fun.(*ast.SelectorExpr)
	if !ok {
		return nil, false
	}
	x, ok := s.X.(*ast.Ident)
	if !ok || x.Name != "verifsim" || s.Sel.Name != name {
		return nil, false
	}
	return c, true
}

func hasUnlabeledBreak(stmts []ast.Stmt) bool {
	found := false
	for _, s := range stmts {
		ast.Inspect(s, func(n ast.Node) bool {
			switch n := n.(type) {
			case *ast.ForStmt, *ast.RangeStmt, *ast.SwitchStmt, *ast.TypeSwitchStmt, *ast.SelectStmt, *ast.FuncLit:
				return false
			case *ast.BranchStmt:
				if n.Tok == token.BREAK && n.Label == nil {
					found = true
				}
			}
			return true
		})
	}
	return found
}

// syncMethod classifies a call x.M() whose method belongs to package sync or
// sync/atomic. It returns the receiver type name ("Mutex", "Once", ...), the
// package path and an expression for the address of the receiver.
func (rw *rewriter) syncMethod(call *ast.CallExpr) (pkg, typ, method string, recv ast.Expr, ok bool) {
	sel, isSel := call.Fun.(*ast.SelectorExpr)
	if !isSel {
		return
	}
	s := rw.pkg.TypesInfo.Selections[sel]
	if s == nil || s.Kind() != types.MethodVal {
		return
	}
	fn, isFn := s.Obj().(*types.Func)
	if !isFn || fn.Pkg() == nil {
		return
	}
	p := fn.Pkg().Path()
	if p != "sync" && p != "sync/atomic" {
		return
	}
	sig := fn.Type().(*types.Signature)
	rt := sig.Recv().Type()
	if pt, isPtr := rt.(*types.Pointer); isPtr {
		rt = pt.Elem()
	}
	named, isNamed := rt.(*types.Named)
	if !isNamed {
		return
	}
	// Build the explicit path to the receiver through embedded fields.
	x := sel.X
	xt := s.Recv()
	idx := s.Index()
	for _, i := range idx[:len(idx)-1] {
		st := xt
		if pt, isPtr := st.Underlying().(*types.Pointer); isPtr {
			st = pt.Elem()
		}
		str, isStruct := st.Underlying().(*types.Struct)
		if !isStruct {
			return
		}
		f := str.Field(i)
		x = &ast.SelectorExpr{X: x, Sel: ast.NewIdent(f.Name())}
		xt = f.Type()
	}
	if _, isPtr := xt.Underlying().(*types.Pointer); isPtr {
		recv = x
	} else {
		recv = &ast.UnaryExpr{Op: token.AND, X: x}
	}
	return p, named.Obj().Name(), fn.Name(), recv, true
}

func (rw *rewriter) rewrite() bool {
	info := rw.pkg.TypesInfo
	pre := func(c *astutil.Cursor) bool { return true }
	post := func(c *astutil.Cursor) bool {
		switch n := c.Node().(type) {
		case *ast.SelectorExpr:
			switch rw.pkgOf(n.X) {
			case "os":
				if rw.r.fs && simosNames[n.Sel.Name] {
					rw.needOS = true
					rw.changed = true
					rep.Rewrites["os."+n.Sel.Name]++
					c.Replace(&ast.SelectorExpr{X: ast.NewIdent("simos"), Sel: n.Sel})
				} else if rw.r.stdio && (n.Sel.Name == "Stdout" || n.Sel.Name == "Stderr") {
					c.Replace(rw.simCall(n.Sel.Name))
				}
			case "time":
				if rw.r.clock && n.Sel.Name == "Now" {
					rep.Rewrites["time.Now"]++
					c.Replace(rw.sim("Now"))
				}
			case "math/rand":
				if rw.r.rand && n.Sel.Name == "Intn" {
					rep.Rewrites["rand.Intn"]++
					c.Replace(rw.sim("RandIntn"))
				}
			}

		case *ast.CallExpr:
			// builtin close
			if id, ok := n.Fun.(*ast.Ident); ok && rw.r.conc && id.Name == "close" {
				if _, isBuiltin := info.Uses[id].(*types.Builtin); isBuiltin {
					c.Replace(rw.simCall("Close", n.Args...))
					return true
				}
			}
			if id, ok := n.Fun.(*ast.Ident); ok && rw.r.cmdline && id.Name == "computeSalt" && len(n.Args) == 0 {
				if _, isFunc := info.Uses[id].(*types.Func); isFunc {
					rw.changed = true
					rep.Rewrites["computeSalt"]++
					n.Fun = ast.NewIdent("verifSalt")
					return true
				}
			}
			if sel, ok := n.Fun.(*ast.SelectorExpr); ok {
				switch rw.pkgOf(sel.X) {
				case "honnef.co/go/tools/lintcmd/cache":
					if rw.r.cmdline && sel.Sel.Name == "Default" && len(n.Args) == 0 {
						rw.changed = true
						rep.Rewrites["cache.Default"]++
						n.Fun = &ast.SelectorExpr{X: sel.X, Sel: ast.NewIdent("VerifDefault")}
						return true
					}
				case "os":
					if rw.r.cmdline && sel.Sel.Name == "Environ" && len(n.Args) == 0 {
						rw.changed = true
						rep.Rewrites["os.Environ"]++
						c.Replace(&ast.CallExpr{Fun: ast.NewIdent("verifEnviron")})
						return true
					}
				case "runtime":
					if rw.r.procs && sel.Sel.Name == "GOMAXPROCS" && len(n.Args) == 1 {
						if lit, ok := n.Args[0].(*ast.BasicLit); ok && lit.Value == "0" {
							c.Replace(rw.simCall("Procs"))
							return true
						}
					}
				case "honnef.co/go/tools/go/loader":
					if rw.r.graph && sel.Sel.Name == "Graph" {
						rw.needHk = true
						rw.changed = true
						rep.Rewrites["loader.Graph"]++
						n.Fun = &ast.SelectorExpr{X: ast.NewIdent("verifhook"), Sel: ast.NewIdent("Graph")}
						return true
					}
				case "maps":
					if rw.r.maps && (sel.Sel.Name == "Keys" || sel.Sel.Name == "Values") && len(n.Args) == 1 {
						rep.MapSites = append(rep.MapSites, rw.fset.Position(n.Pos()).String()+" maps."+sel.Sel.Name)
						c.Replace(rw.simCall("Map"+sel.Sel.Name+"Seq", n.Args[0]))
						return true
					}
				case "sync/atomic":
					if rw.r.conc {
						rw.wrapAtomic(c, n)
						return true
					}
				}
			}
			if rw.r.conc {
				if p, typ, m, recv, ok := rw.syncMethod(n); ok {
					switch {
					case p == "sync/atomic":
						rw.wrapAtomic(c, n)
					case typ == "Mutex" && m == "Lock":
						c.Replace(rw.simCall("Lock", recv))
					case typ == "Mutex" && m == "Unlock":
						c.Replace(rw.simCall("Unlock", recv))
					case typ == "RWMutex" && m == "Lock":
						c.Replace(rw.simCall("RWLock", recv))
					case typ == "RWMutex" && m == "Unlock":
						c.Replace(rw.simCall("RWUnlock", recv))
					case typ == "RWMutex" && m == "RLock":
						c.Replace(rw.simCall("RLock", recv))
					case typ == "RWMutex" && m == "RUnlock":
						c.Replace(rw.simCall("RUnlock", recv))
					case typ == "Once" && m == "Do":
						c.Replace(rw.simCall("OnceDo", recv, n.Args[0]))
					case typ == "WaitGroup" && m == "Add":
						c.Replace(rw.simCall("WGAdd", recv, n.Args[0]))
					case typ == "WaitGroup" && m == "Done":
						c.Replace(rw.simCall("WGDone", recv))
					case typ == "WaitGroup" && m == "Wait":
						c.Replace(rw.simCall("WGWait", recv))
					default:
						unsupported(rw.fset, n.Pos(), "sync."+typ+"."+m)
					}
				}
			}

		case *ast.UnaryExpr:
			if n.Op == token.ARROW && rw.r.conc {
				c.Replace(rw.simCall("Recv", n.X))
			}
			if n.Op == token.AND && len(rw.r.regist) > 0 {
				if cl, ok := n.X.(*ast.CompositeLit); ok {
					if id, ok := cl.Type.(*ast.Ident); ok {
						for _, want := range rw.r.regist {
							if id.Name == want {
								c.Replace(rw.simCall("Register", n))
							}
						}
					}
				}
			}

		case *ast.SendStmt:
			if rw.r.conc {
				c.Replace(&ast.ExprStmt{X: &ast.CallExpr{Fun: rw.simCall("SendTo", n.Chan), Args: []ast.Expr{n.Value}}})
			}

		case *ast.AssignStmt:
			if len(n.Lhs) == 2 && len(n.Rhs) == 1 {
				if call, ok := isSimCall(n.Rhs[0], "Recv"); ok {
					call.Fun.(*ast.SelectorExpr).Sel = ast.NewIdent("Recv2")
				}
			}

		case *ast.ValueSpec:
			if len(n.Names) == 2 && len(n.Values) == 1 {
				if call, ok := isSimCall(n.Values[0], "Recv"); ok {
					call.Fun.(*ast.SelectorExpr).Sel = ast.NewIdent("Recv2")
				}
			}

		case *ast.FuncDecl:
			if len(rw.r.yieldAt) > 0 && n.Body != nil {
				name := n.Name.Name
				if n.Recv != nil && len(n.Recv.List) == 1 {
					t := n.Recv.List[0].Type
					if st, ok := t.(*ast.StarExpr); ok {
						t = st.X
					}
					if id, ok := t.(*ast.Ident); ok {
						name = id.Name + "." + name
					}
				}
				for _, want := range rw.r.yieldAt {
					if want == name {
						n.Body.List = append([]ast.Stmt{&ast.ExprStmt{X: rw.simCall("Yield")}}, n.Body.List...)
						rep.Rewrites["entry-yield"]++
					}
				}
			}

		case *ast.GoStmt:
			if rw.r.conc {
				c.Replace(rw.goStmt(n))
			}

		case *ast.SelectStmt:
			if rw.r.conc {
				if s := rw.selectStmt(n); s != nil {
					c.Replace(s)
				}
			}

		case *ast.RangeStmt:
			if _, labeled := c.Parent().(*ast.LabeledStmt); labeled {
				return true
			}
			if r := rw.rangeReplacement(n); r != nil {
				rw.replaceStmt(c, r)
			}

		case *ast.LabeledStmt:
			if rs, ok := n.Stmt.(*ast.RangeStmt); ok {
				if r := rw.rangeReplacement(rs); r != nil {
					c.Replace(&ast.BlockStmt{List: append(r.prologue, &ast.LabeledStmt{Label: n.Label, Stmt: r.loop})})
				}
			}
		}
		return true
	}
	astutil.Apply(rw.file, pre, post)
	if !rw.changed {
		return false
	}
	if rw.needSim {
		astutil.AddNamedImport(rw.fset, rw.file, "verifsim", simPath)
	}
	if rw.needOS {
		astutil.AddNamedImport(rw.fset, rw.file, "simos", simosPath)
	}
	if rw.needHk {
		astutil.AddNamedImport(rw.fset, rw.file, "verifhook", hookPath)
	}
	rw.dropUnusedImports()
	return true
}

// replaceStmt replaces the loop under the cursor by a block holding the
// prologue and the new loop. A labeled loop is handled when its LabeledStmt
// is visited (the label has to stay on the loop itself).
func (rw *rewriter) replaceStmt(c *astutil.Cursor, repl *replacement) {
	c.Replace(&ast.BlockStmt{List: append(repl.prologue, repl.loop)})
}

func (rw *rewriter) rangeReplacement(n *ast.RangeStmt) *replacement {
	t := rw.typeOf(n.X)
	if t == nil {
		return nil
	}
	switch t.Underlying().(type) {
	case *types.Chan:
		if rw.r.conc {
			r := rw.rangeChan(n)
			return &r
		}
	case *types.Map:
		if rw.r.maps {
			return rw.rangeMap(n)
		}
	}
	return nil
}

type replacement struct {
	prologue []ast.Stmt
	loop     ast.Stmt
}

func define(lhs ast.Expr, rhs ast.Expr) ast.Stmt {
	return &ast.AssignStmt{Lhs: []ast.Expr{lhs}, Tok: token.DEFINE, Rhs: []ast.Expr{rhs}}
}

func isBlank(e ast.Expr) bool {
	id, ok := e.(*ast.Ident)
	return e == nil || (ok && id.Name == "_")
}

// rangeChan: for v := range ch { body }  =>
//
//	{ _ch := ch; for { v, _ok := verifsim.Recv2(_ch); if !_ok { break }; body } }
func (rw *rewriter) rangeChan(n *ast.RangeStmt) replacement {
	ch := rw.fresh("ch")
	ok := rw.fresh("ok")
	var v ast.Expr = ast.NewIdent("_")
	tok := token.DEFINE
	if !isBlank(n.Key) {
		v = n.Key
		tok = n.Tok
	}
	recv := &ast.AssignStmt{Lhs: []ast.Expr{v, ok}, Tok: tok, Rhs: []ast.Expr{rw.simCall("Recv2", ch)}}
	if tok == token.ASSIGN {
		// v already declared; ok must be declared separately
		recv = &ast.AssignStmt{Lhs: []ast.Expr{v, ok}, Tok: token.ASSIGN, Rhs: []ast.Expr{rw.simCall("Recv2", ch)}}
		unsupported(rw.fset, n.Pos(), "range over channel with assignment instead of definition")
	}
	brk := &ast.IfStmt{Cond: &ast.UnaryExpr{Op: token.NOT, X: ok}, Body: &ast.BlockStmt{List: []ast.Stmt{&ast.BranchStmt{Tok: token.BREAK}}}}
	body := &ast.BlockStmt{List: append([]ast.Stmt{recv, brk}, n.Body.List...)}
	return replacement{
		prologue: []ast.Stmt{define(ch, n.X)},
		loop:     &ast.ForStmt{Body: body},
	}
}

// rangeMap: for k, v := range m { body }  =>
//
//	{ _m := m; for _, _k := range verifsim.MapKeys(_m, verifsim.KeyOf) { k := _k; v, _ok := _m[_k]; if !_ok { continue }; body } }
func (rw *rewriter) rangeMap(n *ast.RangeStmt) *replacement {
	if isBlank(n.Key) && isBlank(n.Value) {
		return nil // no variables: the order cannot be observed
	}
	if n.Tok != token.DEFINE {
		unsupported(rw.fset, n.Pos(), "range over map with assignment instead of definition")
		return nil
	}
	rep.MapSites = append(rep.MapSites, fmt.Sprintf("%s range key=%s", rw.fset.Position(n.Pos()), rw.typeOf(n.X).Underlying().(*types.Map).Key()))
	m := rw.fresh("m")
	k := rw.fresh("k")
	ok := rw.fresh("ok")
	var body []ast.Stmt
	if !isBlank(n.Key) {
		body = append(body, define(n.Key, k))
	}
	var v ast.Expr = ast.NewIdent("_")
	if !isBlank(n.Value) {
		v = n.Value
	}
	body = append(body, &ast.AssignStmt{Lhs: []ast.Expr{v, ok}, Tok: token.DEFINE, Rhs: []ast.Expr{&ast.IndexExpr{X: m, Index: k}}})
	body = append(body, &ast.IfStmt{Cond: &ast.UnaryExpr{Op: token.NOT, X: ok}, Body: &ast.BlockStmt{List: []ast.Stmt{&ast.BranchStmt{Tok: token.CONTINUE}}}})
	body = append(body, n.Body.List...)
	loop := &ast.RangeStmt{Key: ast.NewIdent("_"), Value: k, Tok: token.DEFINE, X: rw.simCall("MapKeys", m), Body: &ast.BlockStmt{List: body}}
	return &replacement{prologue: []ast.Stmt{define(m, n.X)}, loop: loop}
}

func (rw *rewriter) wrapAtomic(c *astutil.Cursor, n *ast.CallExpr) {
	if _, isStmt := c.Parent().(*ast.ExprStmt); isStmt {
		// handled when the ExprStmt itself is visited (post-order): mark
		// by wrapping in Y as well; Y on a call without result does not
		// compile, so use a statement-level rewrite instead.
		sig, _ := rw.typeOf(n.Fun).(*types.Signature)
		if sig == nil || sig.Results().Len() == 0 {
			// void call: `verifsim.YieldThen(func() { call })` keeps it an expression statement
			rep.Rewrites["atomic(stmt)"]++
			c.Replace(rw.simCall("YieldThen", &ast.FuncLit{Type: &ast.FuncType{Params: &ast.FieldList{}}, Body: &ast.BlockStmt{List: []ast.Stmt{&ast.ExprStmt{X: n}}}}))
			return
		}
	}
	sig, _ := rw.typeOf(n.Fun).(*types.Signature)
	if sig != nil && sig.Results().Len() == 1 {
		rep.Rewrites["atomic(expr)"]++
		c.Replace(rw.simCall("Y", n))
		return
	}
	if sig != nil && sig.Results().Len() == 0 {
		rep.Rewrites["atomic(stmt)"]++
		c.Replace(rw.simCall("YieldThen", &ast.FuncLit{Type: &ast.FuncType{Params: &ast.FieldList{}}, Body: &ast.BlockStmt{List: []ast.Stmt{&ast.ExprStmt{X: n}}}}))
		return
	}
	unsupported(rw.fset, n.Pos(), "sync/atomic call with unexpected signature")
}

// goStmt: go f(a, b)  =>  { _a0, _a1 := a, b; verifsim.Go(func() { f(_a0, _a1) }) }
func (rw *rewriter) goStmt(n *ast.GoStmt) ast.Stmt {
	call := n.Call
	var pro []ast.Stmt
	fun := call.Fun
	switch f := fun.(type) {
	case *ast.FuncLit:
	case *ast.Ident:
		if _, isFunc := rw.pkg.TypesInfo.Uses[f].(*types.Func); !isFunc {
			t := rw.fresh("fn")
			pro = append(pro, define(t, fun))
			fun = t
		}
	case *ast.SelectorExpr:
		if rw.pkgOf(f.X) == "" {
			t := rw.fresh("fn")
			pro = append(pro, define(t, fun))
			fun = t
		}
	default:
		t := rw.fresh("fn")
		pro = append(pro, define(t, fun))
		fun = t
	}
	args := make([]ast.Expr, len(call.Args))
	for i, a := range call.Args {
		if tv, ok := rw.pkg.TypesInfo.Types[a]; ok && (tv.Value != nil || tv.IsNil()) {
			args[i] = a
			continue
		}
		t := rw.fresh("a")
		pro = append(pro, define(t, a))
		args[i] = t
	}
	inner := &ast.CallExpr{Fun: fun, Args: args, Ellipsis: call.Ellipsis}
	lit := &ast.FuncLit{Type: &ast.FuncType{Params: &ast.FieldList{}}, Body: &ast.BlockStmt{List: []ast.Stmt{&ast.ExprStmt{X: inner}}}}
	g := &ast.ExprStmt{X: rw.simCall("Go", lit)}
	if len(pro) == 0 {
		return g
	}
	return &ast.BlockStmt{List: append(pro, g)}
}

// selectStmt handles `select { case <comm>: A default: B }`.
func (rw *rewriter) selectStmt(n *ast.SelectStmt) ast.Stmt {
	if len(n.Body.List) != 2 {
		unsupported(rw.fset, n.Pos(), "select with other than one communication and a default")
		return nil
	}
	var comm, def *ast.CommClause
	for _, s := range n.Body.List {
		cc := s.(*ast.CommClause)
		if cc.Comm == nil {
			def = cc
		} else {
			comm = cc
		}
	}
	if comm == nil || def == nil {
		unsupported(rw.fset, n.Pos(), "blocking select")
		return nil
	}
	if hasUnlabeledBreak(comm.Body) || hasUnlabeledBreak(def.Body) {
		unsupported(rw.fset, n.Pos(), "break inside select")
		return nil
	}
	sel := rw.fresh("sel")
	ifs := &ast.IfStmt{Body: &ast.BlockStmt{List: comm.Body}, Else: &ast.BlockStmt{List: def.Body}}
	// children were rewritten already (post-order)
	switch cm := comm.Comm.(type) {
	case *ast.ExprStmt:
		if outer, ok := cm.X.(*ast.CallExpr); ok {
			if call, ok := isSimCall(outer.Fun, "SendTo"); ok {
				call.Fun.(*ast.SelectorExpr).Sel = ast.NewIdent("TrySendTo")
				rep.Rewrites["TrySendTo"]++
				ifs.Cond = outer
				return ifs
			}
		}
		if call, ok := isSimCall(cm.X, "Recv"); ok {
			call.Fun.(*ast.SelectorExpr).Sel = ast.NewIdent("TryRecv")
			rep.Rewrites["TryRecv"]++
			ifs.Init = &ast.AssignStmt{Lhs: []ast.Expr{ast.NewIdent("_"), ast.NewIdent("_"), sel}, Tok: token.DEFINE, Rhs: []ast.Expr{call}}
			ifs.Cond = sel
			return ifs
		}
	case *ast.AssignStmt:
		if len(cm.Rhs) == 1 {
			call, ok := isSimCall(cm.Rhs[0], "Recv")
			if !ok {
				call, ok = isSimCall(cm.Rhs[0], "Recv2")
			}
			if ok && cm.Tok == token.DEFINE {
				call.Fun.(*ast.SelectorExpr).Sel = ast.NewIdent("TryRecv")
				rep.Rewrites["TryRecv"]++
				lhs := []ast.Expr{cm.Lhs[0], ast.NewIdent("_"), sel}
				if len(cm.Lhs) == 2 {
					lhs[1] = cm.Lhs[1]
				}
				ifs.Init = &ast.AssignStmt{Lhs: lhs, Tok: token.DEFINE, Rhs: []ast.Expr{call}}
				ifs.Cond = sel
				return ifs
			}
		}
	}
	unsupported(rw.fset, n.Pos(), "select communication clause of unknown shape")
	return nil
}

func (rw *rewriter) dropUnusedImports() {
	used := map[string]bool{}
	ast.Inspect(rw.file, func(n ast.Node) bool {
		if sel, ok := n.(*ast.SelectorExpr); ok {
			if id, ok := sel.X.(*ast.Ident); ok {
				used[id.Name] = true
			}
		}
		return true
	})
	for _, imp := range append([]*ast.ImportSpec(nil), rw.file.Imports...) {
		if imp == nil || imp.Path == nil {
			continue
		}
		path := strings.Trim(imp.Path.Value, `"`)
		name := ""
		if imp.Name != nil {
			name = imp.Name.Name
			if name == "_" || name == "." {
				continue
			}
		} else {
			// only standard library packages we may have emptied
			switch path {
			case "os", "time", "math/rand", "runtime", "sync", "sync/atomic", "maps":
				name = path[strings.LastIndex(path, "/")+1:]
			default:
				continue
			}
		}
		if !used[name] {
			if imp.Name != nil {
				astutil.DeleteNamedImport(rw.fset, rw.file, imp.Name.Name, path)
			} else {
				astutil.DeleteImport(rw.fset, rw.file, path)
			}
		}
	}
}
