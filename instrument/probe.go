//go:build ignore

package main

import (
	"fmt"
	"go/ast"
	"go/types"
	"os"

	"golang.org/x/tools/go/packages"
)

func main() {
	cfg := &packages.Config{Mode: packages.NeedName | packages.NeedSyntax | packages.NeedTypes | packages.NeedTypesInfo | packages.NeedFiles | packages.NeedCompiledGoFiles | packages.NeedImports, Dir: os.Args[1]}
	pkgs, err := packages.Load(cfg, os.Args[2:]...)
	if err != nil {
		panic(err)
	}
	for _, p := range pkgs {
		for _, e := range p.Errors {
			fmt.Println("ERR", e)
		}
		for _, f := range p.Syntax {
			ast.Inspect(f, func(n ast.Node) bool {
				switch n := n.(type) {
				case *ast.RangeStmt:
					t := p.TypesInfo.TypeOf(n.X)
					if t == nil {
						return true
					}
					switch u := t.Underlying().(type) {
					case *types.Map:
						fmt.Printf("%s: range map key=%s (%s)\n", p.Fset.Position(n.Pos()), u.Key(), types.ExprString(n.X))
					case *types.Chan:
						fmt.Printf("%s: range chan\n", p.Fset.Position(n.Pos()))
					case *types.Signature:
						fmt.Printf("%s: range func %s\n", p.Fset.Position(n.Pos()), types.ExprString(n.X))
					}
				case *ast.SelectStmt:
					fmt.Printf("%s: select\n", p.Fset.Position(n.Pos()))
				case *ast.CallExpr:
					if sel, ok := n.Fun.(*ast.SelectorExpr); ok {
						if id, ok := sel.X.(*ast.Ident); ok {
							if pn, ok := p.TypesInfo.Uses[id].(*types.PkgName); ok && (pn.Imported().Path() == "maps" || pn.Imported().Path() == "slices" && (sel.Sel.Name == "Collect")) {
								fmt.Printf("%s: %s.%s\n", p.Fset.Position(n.Pos()), pn.Imported().Path(), sel.Sel.Name)
							}
						}
					}
				}
				return true
			})
		}
	}
}
