#!/bin/bash
# seeded_all.sh [ids...]: run every saved seeded change (seeded/<id>/patch.diff)
# through the quick tier of its property's check; one line per seed.
# Expectation: exit=1 (a VIOLATION) for every seed.
VERIF="$(cd "$(dirname "$0")/.." && pwd)"
ids=("$@")
if [ ${#ids[@]} -eq 0 ]; then
  for d in "$VERIF"/seeded/*/; do ids+=("$(basename "$d")"); done
fi
for id in "${ids[@]}"; do
  d="$VERIF/seeded/$id"
  [ -f "$d/patch.diff" ] || continue
  prop=$(python3 -c "import json;print(json.load(open('$d/meta.json'))['property'])")
  out=$("$VERIF/selftest/seeded.sh" "$d" "$prop" quick 2>&1)
  rc=$(echo "$out" | sed -n 's/^check .* exit=\([0-9]*\)$/\1/p')
  classes=$(echo "$out" | sed -n 's/^  engine=\([^ ]*\) class=\(.*\)$/\1:\2/p' | sort -u | tr '\n' ' ')
  echo "$id $prop exit=$rc $classes"
done
