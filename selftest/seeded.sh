#!/bin/bash
# seeded.sh <seed dir> <property> [tier]: confirm a seeded change and run the property's check against it.
#  - fresh worktree of /repo + patch.diff only (never /repo itself)
#  - builds; prints the check's verdict
set -u
SD="$1"; PROP="$2"; TIER="${3:-quick}"
VERIF="$(cd "$(dirname "$0")/.." && pwd)"
export GOFLAGS=-mod=mod GOPROXY=off
WT="${TMPDIR:-/tmp}/verif-seedwt-$$"
git -C /repo worktree remove --force "$WT" >/dev/null 2>&1
git -C /repo worktree add -f "$WT" HEAD >/dev/null 2>&1 || exit 2
trap 'git -C /repo worktree remove --force "$WT" >/dev/null 2>&1; rm -rf "$EV"' EXIT
EV="$(mktemp -d)"
git -C "$WT" apply "$SD/patch.diff" || { echo "patch does not apply"; exit 2; }
(cd "$WT" && go build ./... ) || { echo "BUILD FAILS with patch"; exit 2; }
echo "build ok with patch"
out=$(VERIF_REPO="$WT" VERIF_EVIDENCE_DIR="$EV" VERIF_REPLAY_DIR="${SEED_REPLAY_DIR:-$EV}" "$VERIF/bin/check" "$PROP" "$TIER" 2>&1); rc=$?
echo "check $PROP $TIER exit=$rc"
echo "$out" | grep -E "^VIOLATION|class=|KNOWN-FINDING|cases \(" | cut -c1-300
exit 0
