#!/bin/bash
# Determinism proof (DESIGN.md §10): every engine executes the same cases in
# many separate OS processes, under different GOMAXPROCS values and both gate
# kinds; per-case digests (kernel event log + observable results), step counts
# and verdicts must be identical in all of them.
# usage: determinism.sh [cases per engine] [processes per engine]
set -u
N="${1:-40}"
P="${2:-30}"
VERIF="$(cd "$(dirname "$0")/.." && pwd)"
export GOFLAGS=-mod=mod GOPROXY=off
SCR="$(mktemp -d "${TMPDIR:-/tmp}/verif-det-XXXXXX")" || exit 2
trap 'rm -rf "$SCR"' EXIT
"$VERIF/bin/mkscratch" "$SCR/src" >"$SCR/log" 2>&1 || { cat "$SCR/log"; exit 2; }
# no un-rewritten nondeterminism sources may remain in the instrumented packages
if grep -n "\.Range(" "$SCR/src/lintcmd/runner/"*.go "$SCR/src/lintcmd/cache/cache.go" "$SCR/src/internal/renameio/"*.go "$SCR/src/go/ir/"*.go 2>/dev/null | grep -v _test; then echo "sync.Map.Range in instrumented code"; exit 1; fi
mkdir -p "$SCR/tmp" "$SCR/out"
FAIL=0
for spec in ${DET_ENGINES:-cachesim: cachesim:-family=enum irsim: runsim: histsim: cachesim2:}; do
  e="${spec%%:*}"; extra="${spec#*:}"
  (cd "$SCR/src" && go build -trimpath -o "$SCR/$e" "./internal/verifharness/$e") || exit 2
  n=$N; p=$P
  case "$e" in runsim|histsim|cachesim2) n=$(( N / 8 + 2 )); p=$(( P / 3 + 2 ));; esac
  tag="$e$extra"
  pids=()
  for i in $(seq 1 $p); do
    gmp=$(( (i % 3 == 0) ? 1 : ( (i % 3 == 1) ? 4 : 16 ) ))
    rg=$(( i % 2 ))
    # every fourth process executes only every second case: a different
    # process history (what ran before in the same OS process must not matter)
    stride=1; [ $(( i % 4 )) -eq 2 ] && stride=2
    ( GOMAXPROCS=$gmp VERIF_WORKER_PROCS=keep VERIF_RACE_GATES=$rg "$SCR/$e" $extra -worker -wid 0 -workers $stride -runs $n -budget 1h -seed 7 -scratch "$SCR/tmp" -dump-digests "$SCR/out/$tag.$i" >/dev/null 2>"$SCR/out/$tag.$i.err" ) &
    pids+=($!)
    # at most 8 at a time
    if [ $(( i % 8 )) -eq 0 ]; then wait; fi
  done
  wait
  ref="$SCR/out/$tag.1"
  lines=$(wc -l < "$ref")
  bad=0
  for i in $(seq 2 $p); do
    if [ $(( i % 4 )) -eq 2 ]; then
      # compare the common indices only
      awk 'NR==FNR{a[$1]=$0;next} ($1 in a) && a[$1]!=$0{print "history-dependent: " a[$1] " vs " $0; bad=1} END{exit bad}' "$ref" "$SCR/out/$tag.$i" || { bad=$((bad+1)); }
      continue
    fi
    if ! cmp -s "$ref" "$SCR/out/$tag.$i"; then bad=$((bad+1)); diff "$ref" "$SCR/out/$tag.$i" | head -5; echo "--- stderr of process $i:"; tail -5 "$SCR/out/$tag.$i.err"; fi
  done
  echo "determinism $tag: $lines cases x $p processes (GOMAXPROCS 1/4/16, both gate kinds): $bad differing" | tee -a "${DET_SUMMARY:-/dev/null}"
  [ $bad -ne 0 ] && FAIL=1
  [ "$lines" -lt 2 ] && { echo "too few cases executed"; cat "$SCR/out/$tag.1.err" | tail -5; FAIL=1; }
done
exit $FAIL
