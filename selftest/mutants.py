#!/usr/bin/env python3
"""Planted-mutant sensitivity self-test (DESIGN.md §10).
usage: mutants.py <property> [tier] [mutant names...]
Each mutant is applied to a scratch worktree of /repo (never to /repo), the
property's check is run against it via VERIF_REPO, and the verdict is printed."""
import os, subprocess, sys, tempfile, shutil, json

VERIF = os.path.dirname(os.path.dirname(os.path.abspath(__file__)))
MUT = {
 "C05": {
  "no_size_check": [("lintcmd/cache/cache.go", "if info.Size() != entry.Size {", "if false && info.Size() != entry.Size {")],
  "no_checksum": [("lintcmd/cache/cache.go", "if sha256.Sum256(data) != entry.OutputID {", "if false && sha256.Sum256(data) != entry.OutputID {")],
  "always_trunc": [("lintcmd/cache/cache.go", "mode := os.O_RDWR | os.O_CREATE\n", "mode := os.O_RDWR | os.O_CREATE | os.O_TRUNC\n")],
  "skip_if_exists": [("lintcmd/cache/cache.go", "if err == nil && info.Size() == size {\n\t\t// Check hash.", "if err == nil {\n\t\treturn nil\n\t}\n\tif err == nil && info.Size() == size {\n\t\t// Check hash.")],
  "short_entry_ok": [("lintcmd/cache/cache.go", "} else if n < entrySize {", "} else if false && n < entrySize {")],
  "no_id_compare": [("lintcmd/cache/cache.go", "} else if buf != id {", "} else if false && buf != id {")],
  "index_before_data": [("lintcmd/cache/cache.go", "\tif err := c.copyFile(file, out, size); err != nil {\n\t\treturn out, size, err\n\t}\n\n\t// Add to cache index.\n\treturn out, size, c.putIndexEntry(id, out, size, allowVerify)",
                         "\tif err := c.putIndexEntry(id, out, size, allowVerify); err != nil {\n\t\treturn out, size, err\n\t}\n\treturn out, size, c.copyFile(file, out, size)")],
  "no_hash_recheck_on_existing": [("lintcmd/cache/cache.go", "\t\t\tif out == out2 {\n\t\t\t\treturn nil\n\t\t\t}", "\t\t\t_ = out2\n\t\t\treturn nil")],
  "full_copy_then_verify": [("lintcmd/cache/cache.go", "if _, err := io.CopyN(w, file, size-1); err != nil {", "if _, err := io.CopyN(w, file, size-1); err != nil || func() bool { f.Write([]byte{0}); f.Seek(-1, 1); return false }() {")],
 },
 "C18": {
  "race_built_counter": [("go/ir/builder.go", "\t\tfn.build(b, fn)\n\t\tfn.done()\n", "\t\tfn.build(b, fn)\n\t\tfn.done()\n\t\tbuiltFunctions++\n"), ("go/ir/builder.go", "// cpuLimit is a counting semaphore to limit CPU parallelism.\n", "// builtFunctions counts built functions (statistics).\nvar builtFunctions int\n\n// cpuLimit is a counting semaphore to limit CPU parallelism.\n")],
  "instance_no_wait": [("go/ir/instantiate.go", "\t} else {\n\t\tb.waitForSharedFunction(inst)\n\t}", "\t}")],
  "objectmethod_no_wait": [("go/ir/methods.go", "\t} else {\n\t\tb.waitForSharedFunction(fn)\n\t}\n\treturn fn\n}", "\t}\n\treturn fn\n}")],
  "methodvalue_no_wait": [("go/ir/methods.go", "\t\t} else {\n\t\t\tb.waitForSharedFunction(fn)\n\t\t}\n\n\t\treturn fn", "\t\t}\n\n\t\treturn fn")],
  "markdone_before_iterate": [("go/ir/builder.go", "func (b *builder) iterate() {\n\tfor ; b.finished < len(b.fns); b.finished++ {\n\t\tfn := b.fns[b.finished]\n\t\tb.buildFunction(fn)\n\t}\n\n\tb.buildshared.markDone()\n", "func (b *builder) iterate() {\n\tb.buildshared.markDone()\n\tfor ; b.finished < len(b.fns); b.finished++ {\n\t\tfn := b.fns[b.finished]\n\t\tb.buildFunction(fn)\n\t}\n\n")],
  "wait_ignores_edges": [("go/ir/task.go", "\t\tfor v := range u.edges {\n\t\t\tif _, ok := enqueued[v]; !ok {", "\t\tfor v := range u.edges {\n\t\t\tif _, ok := enqueued[v]; !ok && u == x {")],
  "buildonce_bool": [("go/ir/builder.go", "func (p *Package) Build() { p.buildOnce.Do(p.build) }", "func (p *Package) Build() {\n\tif p.info != nil {\n\t\tp.build()\n\t}\n}")],
  "no_instances_lock": [("go/ir/instantiate.go", "\tgen.instancesMu.Lock()\n\tdefer gen.instancesMu.Unlock()\n", "")],
  "methodset_insert_unlocked": [("go/ir/methods.go", "\t\tprog.methodsMu.Lock()\n\t\tdefer prog.methodsMu.Unlock()\n\n\t\t// Get or create SSA method set.\n\t\tmset, ok := prog.methodSets.At(T)", "\t\tprog.methodsMu.Lock()\n\t\tmset0, ok0 := prog.methodSets.At(T)\n\t\tprog.methodsMu.Unlock()\n\t\t_, _ = mset0, ok0\n\t\tprog.methodsMu.Lock()\n\t\tdefer prog.methodsMu.Unlock()\n\n\t\t// Get or create SSA method set.\n\t\tmset, ok := prog.methodSets.At(T)")],
  "early_markdone_in_wait": [("go/ir/task.go", "\t\t<-u.done // wait for u to be marked done.\n", "\t\tif u == x {\n\t\t\t<-u.done // wait for u to be marked done.\n\t\t}\n")],
 },
 "C06": {
  "race_shared_counter": [("lintcmd/runner/runner.go", "\t\t\t\ta.Diagnostics = append(a.Diagnostics, d)\n", "\t\t\t\ta.Diagnostics = append(a.Diagnostics, d)\n\t\t\t\treportedDiagnostics++\n"), ("lintcmd/runner/runner.go", "const sanityCheck = false\n", "const sanityCheck = false\n\n// reportedDiagnostics counts diagnostics for statistics.\nvar reportedDiagnostics int\n")],
  "race_failed_flag_shared": [("lintcmd/runner/runner.go", "\tt := time.Now()\n\tres, err := a.Analyzer.Run(a.Pass)\n", "\tt := time.Now()\n\tlastAnalyzer = a.Analyzer.Name\n\tres, err := a.Analyzer.Run(a.Pass)\n"), ("lintcmd/runner/runner.go", "const sanityCheck = false\n", "const sanityCheck = false\n\n// lastAnalyzer is the analyzer that ran most recently (for crash reports).\nvar lastAnalyzer string\n")],
  "triggers_before_exec": [("lintcmd/runner/runner.go", "\tif !a.IsFailed() {\n\t\tif err := exec(a); err != nil {\n\t\t\ta.MarkFailed()\n\t\t\ta.AddError(err)\n\t\t}\n\t}\n\tif sem != nil {\n\t\tsem.Release()\n\t}\n\n\tfor _, t := range a.Triggers() {\n\t\tif t.DecrementPending() {\n\t\t\tqueue <- t\n\t\t}\n\t}\n",
      "\tfor _, t := range a.Triggers() {\n\t\tif t.DecrementPending() {\n\t\t\tqueue <- t\n\t\t}\n\t}\n\tif !a.IsFailed() {\n\t\tif err := exec(a); err != nil {\n\t\t\ta.MarkFailed()\n\t\t\ta.AddError(err)\n\t\t}\n\t}\n\tif sem != nil {\n\t\tsem.Release()\n\t}\n")],
  "pending_off_by_one": [("lintcmd/runner/runner.go", "\ta.pending = uint32(len(a.deps))\n\n\treturn a\n}", "\ta.pending = uint32(len(a.deps))\n\tif a.pending > 1 {\n\t\ta.pending--\n\t}\n\n\treturn a\n}")],
  "double_release_inline": [("lintcmd/runner/runner.go", "genericHandle(item, root, queue, nil, ar.do)", "genericHandle(item, root, queue, &r.semaphore, ar.do)")],
  "no_final_sort": [("lintcmd/cmd.go", "\tif len(diagnostics) > 1 {\n\t\tsort.Slice(diagnostics, func(i, j int) bool {", "\tif len(diagnostics) > 1 {\n\t\tsort.Slice(diagnostics, func(i, j int) bool {\n\t\t\tif true {\n\t\t\t\treturn diagnostics[i].Position.Filename < diagnostics[j].Position.Filename\n\t\t\t}")],
  "analyzer_pending_off_by_one": [("lintcmd/runner/runner.go", "\ta.pending = uint32(len(a.deps))\n\treturn a\n}", "\ta.pending = uint32(len(a.deps))\n\tif a.pending > 2 {\n\t\ta.pending--\n\t}\n\treturn a\n}")],
  "unused_first_variant_wins": [("lintcmd/lint.go", "\t\t\t\tused[key] = true\n\t\t\t}", "\t\t\t\tif _, seen := used[key]; !seen {\n\t\t\t\t\tused[key] = true\n\t\t\t\t}\n\t\t\t}")],
 },
}

def main():
    prop = sys.argv[1]
    tier = sys.argv[2] if len(sys.argv) > 2 else "quick"
    names = sys.argv[3:] or sorted(MUT[prop])
    wt = os.path.join(tempfile.gettempdir(), "verif-mutwt-%d" % os.getpid())
    subprocess.run(["git", "-C", "/repo", "worktree", "remove", "--force", wt], capture_output=True)
    subprocess.run(["git", "-C", "/repo", "worktree", "add", "-f", wt, "HEAD"], check=True, capture_output=True)
    evdir = tempfile.mkdtemp(prefix="verif-mut-ev-")
    try:
        for n in names:
            subprocess.run(["git", "-C", wt, "checkout", "-q", "--", "."], check=True)
            ok = True
            for f, old, new in MUT[prop][n]:
                path = os.path.join(wt, f)
                s = open(path).read()
                if s.count(old) != 1:
                    print("MUTANT %s: pattern occurs %d times in %s" % (n, s.count(old), f)); ok = False; break
                open(path, "w").write(s.replace(old, new))
            if not ok:
                continue
            env = dict(os.environ, VERIF_REPO=wt, VERIF_EVIDENCE_DIR=evdir, VERIF_REPLAY_DIR=evdir)
            r = subprocess.run([os.path.join(VERIF, "bin/check"), prop, tier], env=env, capture_output=True, text=True)
            lines = [l for l in r.stdout.splitlines() if l.startswith("VIOLATION") or "class=" in l]
            print("MUTANT %-28s exit=%d  %s" % (n, r.returncode, " | ".join(l.strip() for l in lines[:4])))
            if r.returncode == 2:
                print(r.stderr[-1500:])
            sys.stdout.flush()
    finally:
        subprocess.run(["git", "-C", "/repo", "worktree", "remove", "--force", wt], capture_output=True)
        shutil.rmtree(evdir, ignore_errors=True)

main()
