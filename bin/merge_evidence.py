#!/usr/bin/env python3
"""merge_evidence.py <id> <tier> <seed> <wall_s> <parts dir> <instrument report> <out>
Merges the per-engine evidence parts written by the engines of one check run
into /verif/evidence/<id>.json (schema: /root/.vp/EVIDENCE.schema.json)."""
import json, os, sys

pid, tier, seed, wall, partsdir, instr, out = sys.argv[1:8]
LEVEL = {"C04": "exploration", "C05": "fault_enumeration", "C06": "exploration", "C18": "exploration"}
parts = []
for name in sorted(os.listdir(partsdir)):
    if name.endswith(".json"):
        with open(os.path.join(partsdir, name)) as f:
            p = json.load(f)
        p["part"] = name[:-5]
        parts.append(p)
if not parts:
    sys.exit("no evidence parts")
evaluations = sum(p.get("evaluations", 0) for p in parts)
distinct = sum(p.get("distinct_nontrivial", 0) for p in parts)
samples = []
for p in parts:
    for s in (p.get("samples") or [])[:2]:
        samples.append({"engine": p["engine"], "case": s})
fired = {}
for p in parts:
    for k, v in (p.get("counters") or {}).items():
        if k.startswith("fault:") or k.startswith("damage:"):
            fired[k] = fired.get(k, 0) + v
assumptions = []
for p in parts:
    for a in p.get("assumptions") or []:
        if a not in assumptions:
            assumptions.append(a)
real_vs_stub = {}
for p in parts:
    real_vs_stub.update(p.get("real_vs_stub") or {})
instrument = None
try:
    with open(instr) as f:
        r = json.load(f)
    instrument = {"packages": r.get("packages"), "rewrites": r.get("rewrites"), "map_sites_controlled": len(r.get("map_sites") or []), "files_rewritten": r.get("files")}
except Exception:
    pass
wall = float(wall)
ev = {
    "property_id": pid,
    "tier": tier,
    "seed": int(seed),
    "level": LEVEL.get(pid, "exploration"),
    "wall_s": wall,
    "violations": sum(p.get("violations", 0) for p in parts),
    "coverage": {
        "evaluations": evaluations,
        "distinct_nontrivial": distinct,
        "rule": " || ".join("[%s] %s" % (p["part"], p.get("rule", "")) for p in parts),
        "samples": samples,
        "exhaustive": all(p.get("exhaustive", False) for p in parts),
        "simulated_runs_per_hour": evaluations / wall * 3600 if wall > 0 else 0,
        "simulated_time_s": sum(p.get("simulated_time_s", 0) for p in parts),
        "scheduling_steps": sum(p.get("steps", 0) for p in parts),
        "scheduling_decisions": sum(p.get("decisions", 0) for p in parts),
        "faults_fired": fired,
        "known_findings_hit": sum(p.get("known_findings", 0) for p in parts),
        "infra_problems": sum(p.get("infra_problems", 0) for p in parts),
        "real_vs_stub": real_vs_stub,
        "instrumentation": instrument,
        "engines": [{k: v for k, v in p.items() if k not in ("assumptions", "real_vs_stub", "rule", "samples")} for p in parts],
    },
    "assumptions": assumptions,
}
os.makedirs(os.path.dirname(out), exist_ok=True)
tmp = out + ".tmp"
with open(tmp, "w") as f:
    json.dump(ev, f, indent=1)
os.replace(tmp, out)
