package main

import (
	"fmt"
	"go/ast"
	"go/parser"
	"go/token"
	"go/types"
	"sort"
	"strings"

	"honnef.co/go/tools/internal/verifharness/genmod"
)

// ProgSpec describes a generated multi-package program. The library package
// defines generic functions, a generic type, embedded-interface material and
// an iterator; each user package uses a seeded subset of it, in a seeded
// order, so that the same instances, wrappers, bound-method closures and
// thunks are requested by several per-package builders.
type ProgSpec struct {
	Users        []UserSpec `json:"users"`
	LibFromTypes bool       `json:"lib_from_types,omitempty"` // the library package is created without syntax
	BaseIndirect bool       `json:"base_indirect,omitempty"`  // with LibFromTypes: no IR package is created for package base at all (an indirect dependency); its methods are created on demand
}

type UserSpec struct {
	Imports []int    `json:"imports,omitempty"` // lower-numbered user packages
	Stmts   []string `json:"stmts"`             // statement kinds, in order
	Elem    string   `json:"elem"`              // element type for generic instantiations ("int", "string", "float64", "lib.Base", "[]int")
}

var stmtKinds = []string{"toany", "asnamer", "boxembed", "mix", "alias", "peek", "outer", "mid", "inner", "outerbox", "midbox", "map", "sum", "box", "apply", "pair", "iface", "ptriface", "embiface", "bound", "thunk", "mexpr", "seq", "chain", "dep", "nested", "recur", "boxmethodval", "boundlog", "boundconn"}

const baseSrc = `package base

type B struct{ N int }

func (b B) Name() string { return "base" }

func (b *B) Inc() { b.N++ }

func (b B) Twice() int { return b.N * 2 }

func (b B) hidden() int { return b.N }

// Peek calls the unexported method.
func (b B) Peek() int { return b.hidden() }
`

const libSrc = `package lib

import "base"

type Number interface{ ~int | ~int64 | ~float64 }

func Map[T, U any](xs []T, f func(T) U) []U {
	var out []U
	for _, x := range xs {
		out = append(out, f(x))
	}
	return out
}

func Sum[T Number](xs []T) T {
	var s T
	for _, x := range xs {
		s += x
	}
	return s
}

func Id[T any](x T) T { return x }

func Twice[T any](x T, f func(T) T) T { return f(Id(f(x))) }

// conversions to interfaces inside generic bodies (runtime types recorded
// while an instance is built by whoever requests it first)
func ToAny[T any](x T) any { return x }

func Anys[T any](xs []T) []any {
	var out []any
	for _, x := range xs {
		out = append(out, x)
	}
	return out
}

func AsNamer[T Namer](x T) Namer { return x }

// a chain of generic functions: users may reference only the outer ones
func Outer[T any](v T) T { return Mid(v) }

func Mid[T any](v T) T { return Inner(v) }

func Inner[T any](v T) T { return v }

func OuterBox[T any](v T) Box[T] { return MidBox(Box[T]{V: v}) }

func MidBox[T any](b Box[T]) Box[T] { return Id(b) }

type Pair[A, B any] struct {
	L A
	R B
}

func MkPair[A, B any](a A, b B) Pair[A, B] { return Pair[A, B]{a, b} }

func (p Pair[A, B]) Swap() Pair[B, A] { return MkPair(p.R, p.L) }

type Box[T any] struct{ V T }

func (b *Box[T]) Get() T { return b.V }

func (b Box[T]) With(v T) Box[T] {
	b.V = v
	return b
}

func Apply[T any](b *Box[T], f func(T) T) { b.V = f(b.Get()) }

func Nest[T any](x T, n int) Box[T] {
	if n > 0 {
		return Nest(Id(x), n-1)
	}
	return Box[T]{V: x}
}

type Base struct{ base.B }

type Other struct{ S string }

func (o Other) Title() string { return o.S }

func (o *Other) Reset() { o.S = "" }

func (o Other) hidden() int { return len(o.S) }

// Log.Append and Conn.Send have identical signature types and different
// parameter and result names (as do the Put methods of the user packages).
type Log struct{ n int }

func (l *Log) Append(rec []byte) (n int, err error) {
	l.n += len(rec)
	return l.n, nil
}

type Conn struct{ n int }

func (c *Conn) Send(frame []byte) (written int, failure error) {
	c.n += len(frame)
	return c.n, nil
}

type Putter interface {
	Put(data []byte) (count int, problem error)
}

type Titler interface{ Title() string }

type Namer interface{ Name() string }

type Incer interface{ Inc() }

type Both interface {
	Namer
	Incer
}

func Seq(n int) func(yield func(int) bool) {
	return func(yield func(int) bool) {
		for i := 0; i < n; i++ {
			if !yield(i) {
				return
			}
		}
	}
}

func Each[T any](xs []T) func(yield func(int, T) bool) {
	return func(yield func(int, T) bool) {
		for i, x := range xs {
			if !yield(i, x) {
				return
			}
		}
	}
}
`

func zeroOf(elem string) string {
	switch elem {
	case "int":
		return "1"
	case "string":
		return `"s"`
	case "float64":
		return "1.5"
	case "lib.Base":
		return "lib.Base{}"
	case "[]int":
		return "[]int{1}"
	}
	return "nil"
}

func (ps *ProgSpec) sources() map[string]string {
	out := map[string]string{"lib": libSrc, "base": baseSrc}
	for i, u := range ps.Users {
		var b strings.Builder
		w := func(f string, a ...any) { fmt.Fprintf(&b, f, a...) }
		name := fmt.Sprintf("u%d", i)
		w("package %s\n\nimport (\n\t\"lib\"\n", name)
		for _, d := range u.Imports {
			w("\t\"u%d\"\n", d)
		}
		w(")\n\n")
		for _, d := range u.Imports {
			w("var _ = u%d.F0\n", d)
		}
		w("\ntype Wrap struct {\n\tlib.Base\n\textra int\n}\n\n")
		w("type PWrap struct{ *lib.Base }\n\n")
		w("type IW struct{ lib.Namer }\n\n")
		w("type Deep struct{ Wrap }\n\n")
		w("type Mix struct {\n\tWrap\n\tlib.Other\n}\n\n")
		w("type WA = Wrap\n\n")
		w("type BoxE = lib.Box[%s]\n\n", u.Elem)
		w("type PairB struct{ lib.Box[%s] }\n\n", u.Elem)
		w("type NT interface {\n\tlib.Namer\n\tlib.Titler\n}\n\n")
		E := u.Elem
		z := zeroOf(E)
		numeric := E == "int" || E == "float64"
		w("type Local struct{ n int }\n\nfunc (l *Local) Put(buf%d []byte) (cnt%d int, e%d error) {\n\tl.n += len(buf%d)\n\treturn l.n, nil\n}\n\ntype EmbLocal struct{ *Local }\n\n", i, i, i, i)
		w("var Sink []any\n\n")
		for k, s := range u.Stmts {
			w("func F%d() {\n", k)
			switch s {
			case "toany":
				w("\tSink = append(Sink, lib.ToAny(%s), lib.Anys([]%s{%s}), lib.ToAny(Wrap{}), lib.ToAny(&Deep{}))\n", z, E, z)
			case "asnamer":
				w("\tSink = append(Sink, lib.AsNamer(Wrap{}).Name(), lib.AsNamer(&Deep{}).Name(), lib.AsNamer(lib.Base{}).Name())\n")
			case "boxembed":
				w("\tp := PairB{}\n\tg := p.Get\n\tvar b BoxE\n\tw := (*BoxE).Get\n\tSink = append(Sink, g(), w(&b), p.With(%s))\n", z)
			case "mix":
				w("\tvar n NT = Mix{}\n\tvar t lib.Titler = &Mix{}\n\tf := Mix{}.Title\n\tg := (*Mix).Reset\n\tm := &Mix{}\n\tg(m)\n\tvar i lib.Incer = m\n\ti.Inc()\n\tSink = append(Sink, n.Name(), n.Title(), t.Title(), f())\n")
			case "alias":
				w("\tvar n lib.Namer = WA{}\n\th := WA.Name\n\tk := (*WA).Inc\n\tx := WA{}\n\tk(&x)\n\tSink = append(Sink, n.Name(), h(x))\n")
			case "peek":
				w("\tw := Wrap{}\n\tp := w.Peek\n\tq := Deep.Peek\n\tSink = append(Sink, p(), q(Deep{}), Mix{}.Peek())\n")
			case "outer":
				w("\tSink = append(Sink, lib.Outer(%s))\n", z)
			case "mid":
				w("\tSink = append(Sink, lib.Mid(%s))\n", z)
			case "inner":
				w("\tSink = append(Sink, lib.Inner(%s))\n", z)
			case "outerbox":
				w("\tSink = append(Sink, lib.OuterBox(%s))\n", z)
			case "midbox":
				w("\tSink = append(Sink, lib.MidBox(lib.Box[%s]{V: %s}))\n", E, z)
			case "map":
				w("\txs := []%s{%s}\n\tys := lib.Map(xs, func(x %s) %s { return lib.Id(x) })\n\tSink = append(Sink, ys)\n", E, z, E, E)
			case "sum":
				if numeric {
					w("\tSink = append(Sink, lib.Sum([]%s{%s, %s}))\n", E, z, z)
				} else {
					w("\tSink = append(Sink, lib.Sum([]int{1, 2}))\n")
				}
			case "box":
				w("\tb := &lib.Box[%s]{V: %s}\n\tSink = append(Sink, b.Get(), b.With(%s))\n", E, z, z)
			case "apply":
				w("\tb := &lib.Box[%s]{V: %s}\n\tlib.Apply(b, lib.Id[%s])\n\tSink = append(Sink, lib.Twice(b.Get(), lib.Id[%s]))\n", E, z, E, E)
			case "pair":
				w("\tp := lib.MkPair(%s, 2)\n\tSink = append(Sink, p.Swap(), p.Swap().Swap())\n", z)
			case "iface":
				w("\tvar n lib.Namer = Wrap{}\n\tSink = append(Sink, n.Name())\n")
			case "ptriface":
				w("\tvar i lib.Incer = &Wrap{}\n\ti.Inc()\n\tvar b lib.Both = &PWrap{&lib.Base{}}\n\tb.Inc()\n\tSink = append(Sink, b.Name(), Deep{})\n\tvar d lib.Both = &Deep{}\n\td.Inc()\n")
			case "embiface":
				w("\tvar n lib.Namer = IW{lib.Base{}}\n\tSink = append(Sink, n.Name())\n")
			case "bound":
				w("\tw := Wrap{}\n\tm := w.Name\n\tp := &w\n\tinc := p.Inc\n\tinc()\n\tSink = append(Sink, m())\n")
			case "thunk":
				w("\tg := (*lib.Base).Inc\n\th := lib.Base.Name\n\tk := (*Wrap).Inc\n\tw := Wrap{}\n\tg(&w.Base)\n\tk(&w)\n\tSink = append(Sink, h(w.Base), Wrap.Name(w))\n")
			case "mexpr":
				w("\tvar n lib.Namer = lib.Base{}\n\tf := n.Name\n\tg := lib.Namer.Name\n\tSink = append(Sink, f(), g(n))\n")
			case "seq":
				w("\tt := 0\n\tfor v := range lib.Seq(3) {\n\t\tif v == 2 {\n\t\t\tbreak\n\t\t}\n\t\tt += v\n\t}\n\tfor i, x := range lib.Each([]%s{%s}) {\n\t\tSink = append(Sink, i, x)\n\t}\n\tSink = append(Sink, t)\n", E, z)
			case "chain":
				w("\tSink = append(Sink, lib.Map(lib.Map([]%s{%s}, lib.Id[%s]), func(x %s) lib.Box[%s] { return lib.Box[%s]{V: x} }))\n", E, z, E, E, E, E)
			case "dep":
				if len(u.Imports) > 0 {
					d := u.Imports[k%len(u.Imports)]
					w("\tu%d.F0()\n\tvar n lib.Namer = u%d.Wrap{}\n\tSink = append(Sink, n.Name(), u%d.Deep{}.Name())\n", d, d, d)
				} else {
					w("\tSink = append(Sink, lib.Id(%s))\n", z)
				}
			case "nested":
				w("\tSink = append(Sink, lib.Nest(%s, 2), lib.Nest(lib.MkPair(%s, %s), 1))\n", z, z, z)
			case "recur":
				w("\tvar f func(int) int\n\tf = func(n int) int {\n\t\tif n == 0 {\n\t\t\treturn lib.Id(0)\n\t\t}\n\t\treturn f(n-1) + lib.Sum([]int{n})\n\t}\n\tSink = append(Sink, f(3))\n")
			case "boundlog":
				w("\tl := &lib.Log{}\n\ta := l.Append\n\tloc := &Local{}\n\tp := loc.Put\n\tq := (*Local).Put\n\tvar i lib.Putter = EmbLocal{loc}\n\tr := i.Put\n\tSink = append(Sink, a, p, q, r)\n")
			case "boundconn":
				w("\tc := &lib.Conn{}\n\ts := c.Send\n\tt := (*lib.Conn).Send\n\tloc := EmbLocal{&Local{}}\n\tp := loc.Put\n\tSink = append(Sink, s, t, p)\n")
			case "boxmethodval":
				w("\tb := &lib.Box[%s]{V: %s}\n\tget := b.Get\n\twith := lib.Box[%s].With\n\tSink = append(Sink, get(), with(*b, %s))\n", E, z, E, z)
			}
			w("}\n\n")
		}
		out[name] = b.String()
	}
	return out
}

type mapImporter map[string]*types.Package

func (m mapImporter) Import(path string) (*types.Package, error) {
	if p, ok := m[path]; ok {
		return p, nil
	}
	return nil, fmt.Errorf("package %q not found", path)
}

type checked struct {
	fset  *token.FileSet
	order []string // dependency order
	pkgs  map[string]*types.Package
	files map[string][]*ast.File
	infos map[string]*types.Info
}

// typecheck parses and type-checks the program from scratch (every IR
// program gets its own type universe, like separate loads).
func (ps *ProgSpec) typecheck() (*checked, error) {
	src := ps.sources()
	c := &checked{fset: token.NewFileSet(), pkgs: map[string]*types.Package{}, files: map[string][]*ast.File{}, infos: map[string]*types.Info{}}
	c.order = []string{"base", "lib"}
	for i := range ps.Users {
		c.order = append(c.order, fmt.Sprintf("u%d", i))
	}
	imp := mapImporter{}
	for _, name := range c.order {
		f, err := parser.ParseFile(c.fset, name+"/"+name+".go", src[name], parser.ParseComments|parser.SkipObjectResolution)
		if err != nil {
			return nil, fmt.Errorf("parse %s: %v\n%s", name, err, src[name])
		}
		info := &types.Info{
			Types:        map[ast.Expr]types.TypeAndValue{},
			Defs:         map[*ast.Ident]types.Object{},
			Uses:         map[*ast.Ident]types.Object{},
			Implicits:    map[ast.Node]types.Object{},
			Instances:    map[*ast.Ident]types.Instance{},
			Scopes:       map[ast.Node]*types.Scope{},
			Selections:   map[*ast.SelectorExpr]*types.Selection{},
			FileVersions: map[*ast.File]string{},
		}
		conf := types.Config{Importer: imp, GoVersion: "go1.24"}
		pkg, err := conf.Check(name, c.fset, []*ast.File{f}, info)
		if err != nil {
			return nil, fmt.Errorf("typecheck %s: %v\n%s", name, err, src[name])
		}
		imp[name] = pkg
		c.pkgs[name] = pkg
		c.files[name] = []*ast.File{f}
		c.infos[name] = info
	}
	return c, nil
}

func genProg(r *genmod.Rng, tier string) ProgSpec {
	n := 2 + r.N(5)
	if tier == "thorough" {
		n = 2 + r.N(12)
	}
	var ps ProgSpec
	ps.LibFromTypes = r.P(300)
	ps.BaseIndirect = r.P(600)
	elems := []string{"int", "int", "string", "float64", "lib.Base", "[]int"}
	common := elems[r.N(len(elems))]
	for i := 0; i < n; i++ {
		u := UserSpec{Elem: common}
		if r.P(250) {
			u.Elem = elems[r.N(len(elems))]
		}
		for d := 0; d < i; d++ {
			if r.P(300) {
				u.Imports = append(u.Imports, d)
			}
		}
		ns := 3 + r.N(8)
		for k := 0; k < ns; k++ {
			u.Stmts = append(u.Stmts, stmtKinds[r.N(len(stmtKinds))])
		}
		ps.Users = append(ps.Users, u)
	}
	return ps
}

func sortedKeys[V any](m map[string]V) []string {
	out := make([]string, 0, len(m))
	for k := range m {
		out = append(out, k)
	}
	sort.Strings(out)
	return out
}
