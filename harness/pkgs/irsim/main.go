// Command irsim is the C18 engine: go/ir's parallel program builder under
// seeded schedules. Every build must yield, for every function, the IR that
// a serial build of a fresh program yields (up to value numbering); shared
// functions must exist exactly once and be complete when Build returns;
// Build must be idempotent and must terminate. See /verif/DESIGN.md §8.
package main

import (
	"bytes"
	"encoding/json"
	"fmt"
	"go/types"
	"hash/fnv"
	"os"
	"regexp"
	"runtime"
	"sort"
	"strings"
	"sync"
	"time"

	"honnef.co/go/tools/go/ir"
	"honnef.co/go/tools/internal/verifharness/batch"
	"honnef.co/go/tools/internal/verifharness/genmod"
	"honnef.co/go/tools/internal/verifsim"
)

type Sched struct {
	Seed     uint64   `json:"seed"`
	Strategy int      `json:"strategy"`
	StratArg int      `json:"strat_arg"`
	Driver   int      `json:"driver"`
	Order    []int    `json:"order,omitempty"` // package order for the per-package drivers
	Pinned   bool     `json:"pinned,omitempty"`
	Tape     []uint32 `json:"tape,omitempty"`
}

type Case struct {
	Prog     ProgSpec `json:"prog"`
	Mode     uint     `json:"mode"`
	CPULimit int      `json:"cpu_limit"` // capacity of go/ir's package-level build semaphore
	Scheds   []Sched  `json:"scheds"`
}

var driverNames = []string{"prog.Build", "one task per package", "two tasks per package", "prog.Build twice concurrently", "prog.Build with concurrent MethodValue callers", "prog.Build after per-package Build of a subset"}

var valueRe = regexp.MustCompile(`\bt[0-9]+\b`)

// canon renames SSA values by first occurrence: "up to value numbering".
func canon(s string) string {
	m := map[string]string{}
	return valueRe.ReplaceAllStringFunc(s, func(t string) string {
		if r, ok := m[t]; ok {
			return r
		}
		r := fmt.Sprintf("v%d", len(m))
		m[t] = r
		return r
	})
}

// fnKey identifies a function across builds: name, provenance and the types
// (not the names) of its parameters and results.
func fnKey(fn *ir.Function) string {
	sig := fn.Signature
	var b strings.Builder
	b.WriteString(fn.RelString(nil) + " | " + fn.Synthetic + " | func(")
	for i := 0; i < sig.Params().Len(); i++ {
		if i > 0 {
			b.WriteString(", ")
		}
		b.WriteString(types.TypeString(sig.Params().At(i).Type(), nil))
	}
	if sig.Variadic() {
		b.WriteString("...")
	}
	b.WriteString(") (")
	for i := 0; i < sig.Results().Len(); i++ {
		if i > 0 {
			b.WriteString(", ")
		}
		b.WriteString(types.TypeString(sig.Results().At(i).Type(), nil))
	}
	b.WriteString(")")
	if r := sig.Recv(); r != nil {
		b.WriteString(" recv " + types.TypeString(r.Type(), nil))
	}
	for _, ta := range fn.TypeArgs() {
		if hasTypeParam(ta, 0) {
			// instantiated with a type parameter of the enclosing generic
			// function: distinct enclosing functions give distinct instances
			// that print alike
			b.WriteString(" (parameterized)")
			break
		}
	}
	return b.String()
}

func hasTypeParam(t types.Type, depth int) bool {
	if depth > 8 {
		return false
	}
	switch t := types.Unalias(t).(type) {
	case *types.TypeParam:
		return true
	case *types.Named:
		if ta := t.TypeArgs(); ta != nil {
			for i := 0; i < ta.Len(); i++ {
				if hasTypeParam(ta.At(i), depth+1) {
					return true
				}
			}
		}
	case *types.Pointer:
		return hasTypeParam(t.Elem(), depth+1)
	case *types.Slice:
		return hasTypeParam(t.Elem(), depth+1)
	case *types.Array:
		return hasTypeParam(t.Elem(), depth+1)
	case *types.Chan:
		return hasTypeParam(t.Elem(), depth+1)
	case *types.Map:
		return hasTypeParam(t.Key(), depth+1) || hasTypeParam(t.Elem(), depth+1)
	case *types.Signature:
		for i := 0; i < t.Params().Len(); i++ {
			if hasTypeParam(t.Params().At(i).Type(), depth+1) {
				return true
			}
		}
		for i := 0; i < t.Results().Len(); i++ {
			if hasTypeParam(t.Results().At(i).Type(), depth+1) {
				return true
			}
		}
	case *types.Struct:
		for i := 0; i < t.NumFields(); i++ {
			if hasTypeParam(t.Field(i).Type(), depth+1) {
				return true
			}
		}
	}
	return false
}

// paramNorm renames the function's parameters (as named by its Signature
// and by its Params) positionally, for the narrow classification of the one
// known finding (instance parameter names depend on build order).
func paramNorm(fn *ir.Function, dump string) string {
	names := map[string]string{}
	add := func(n string, i int) {
		if n != "" && n != "_" {
			if _, ok := names[n]; !ok {
				names[n] = fmt.Sprintf("param%d", i)
			}
		}
	}
	sig := fn.Signature
	for i := 0; i < sig.Params().Len(); i++ {
		add(sig.Params().At(i).Name(), i)
	}
	for i, p := range fn.Params {
		add(p.Name(), i)
	}
	if len(names) == 0 {
		return dump
	}
	return identRe.ReplaceAllStringFunc(dump, func(w string) string {
		if r, ok := names[w]; ok {
			return r
		}
		return w
	})
}

var identRe = regexp.MustCompile(`[A-Za-z_][A-Za-z0-9_]*`)

func dumpFn(fn *ir.Function) (s string) {
	defer func() {
		if r := recover(); r != nil {
			s = fmt.Sprintf("PANIC while printing: %v", r)
		}
	}()
	var buf bytes.Buffer
	ir.WriteFunction(&buf, fn)
	fmt.Fprintf(&buf, "# params: %d free: %d anon: %d\n", len(fn.Params), len(fn.FreeVars), len(fn.AnonFuncs))
	return canon(buf.String())
}

// normOf maps the dump of a generic instance / instantiation wrapper to the
// same dump with parameters renamed positionally.
var normOf = map[string]string{}

// dumpAll returns key -> sorted list of dumps (a multiset).
func dumpAll(prog *ir.Program) map[string][]string {
	out := map[string][]string{}
	var visit func(fn *ir.Function)
	seen := map[*ir.Function]bool{}
	visit = func(fn *ir.Function) {
		if seen[fn] {
			return
		}
		seen[fn] = true
		d := dumpFn(fn)
		out[fnKey(fn)] = append(out[fnKey(fn)], d)
		if strings.HasPrefix(fn.Synthetic, "instance of ") || strings.HasPrefix(fn.Synthetic, "instantiation wrapper of ") {
			normOf[d] = paramNorm(fn, d)
		}
		for _, a := range fn.AnonFuncs {
			visit(a)
		}
	}
	for fn := range allFunctions(prog) {
		visit(fn)
	}
	for _, l := range out {
		sort.Strings(l)
	}
	return out
}

// allFunctions enumerates every function of the program: all package-level
// functions, the implementation (MethodValue) of every method of every
// non-generic named type declared in a created package and of its pointer
// type, and everything reachable from those through operands.
//
// irutil.AllFunctions is deliberately not used: it adds the methods of
// Program.RuntimeTypes(), and RuntimeTypes is not a function of the program:
// when an alias (type WA = Wrap) and its target are both converted to
// interfaces, typesinternal.ForEachElement explores the target's structure
// only if the target happens to come first in the iteration over a map (the
// alias marks the identical target as seen before descending into it), so two
// calls on one finished program can return 13 and 18 types. That is outside
// the four claimed properties (nothing in the linter uses RuntimeTypes) and is
// recorded in DESIGN.md as an observation.
func allFunctions(prog *ir.Program) map[*ir.Function]bool {
	seen := map[*ir.Function]bool{}
	var visit func(fn *ir.Function)
	visit = func(fn *ir.Function) {
		if fn == nil || seen[fn] {
			return
		}
		seen[fn] = true
		var buf [10]*ir.Value
		for _, b := range fn.Blocks {
			for _, instr := range b.Instrs {
				for _, op := range instr.Operands(buf[:0]) {
					if f, ok := (*op).(*ir.Function); ok {
						visit(f)
					}
				}
			}
		}
		for _, a := range fn.AnonFuncs {
			visit(a)
		}
	}
	pkgs := prog.AllPackages()
	sort.Slice(pkgs, func(i, j int) bool { return pkgs[i].Pkg.Path() < pkgs[j].Pkg.Path() })
	for _, pkg := range pkgs {
		for _, name := range sortedKeys(pkg.Members) {
			switch mem := pkg.Members[name].(type) {
			case *ir.Function:
				visit(mem)
			case *ir.Type:
				named, ok := mem.Type().(*types.Named)
				if !ok || named.TypeParams() != nil || types.IsInterface(named) {
					continue
				}
				for _, T := range []types.Type{named, types.NewPointer(named)} {
					ms := prog.MethodSets.MethodSet(T)
					for i := 0; i < ms.Len(); i++ {
						visit(prog.MethodValue(ms.At(i)))
					}
				}
			}
		}
	}
	return seen
}

// canonTypeString prints a type with aliases resolved (u1.BoxE and u2.BoxE
// are both lib.Box[int]: callers from different packages must be handed the
// same wrapper).
func canonTypeString(t types.Type) string {
	switch u := types.Unalias(t).(type) {
	case *types.Pointer:
		return "*" + canonTypeString(u.Elem())
	default:
		return types.TypeString(u, nil)
	}
}

// duplicates checks the absolute half of "created exactly once": generic
// instances and instantiation wrappers are memoised per (origin, type
// arguments), so no two functions of that kind may share a key, in any
// build including the serial reference. (Thunks and bound-method closures
// are created per use site in this code base and are not subject to it.)
func duplicates(dumps map[string][]string) (class, detail string) {
	for _, k := range sortedKeys(dumps) {
		if len(dumps[k]) > 1 && !strings.HasSuffix(k, " (parameterized)") && (strings.Contains(k, " | instance of ") || strings.Contains(k, " | instantiation wrapper of ")) {
			return "function-created-more-than-once", fmt.Sprintf("%s exists %d times as distinct functions", k, len(dumps[k]))
		}
	}
	return "", ""
}

func diffDumps(ref, got map[string][]string) (class, detail string) {
	keys := map[string]bool{}
	for k := range ref {
		keys[k] = true
	}
	for k := range got {
		keys[k] = true
	}
	var ks []string
	for k := range keys {
		ks = append(ks, k)
	}
	sort.Strings(ks)
	for _, k := range ks {
		r, g := ref[k], got[k]
		if len(g) > len(r) {
			return "function-created-more-than-once", fmt.Sprintf("%s exists %d times, %d in the serial reference build", k, len(g), len(r))
		}
		if len(g) < len(r) {
			return "function-missing", fmt.Sprintf("%s exists %d times, %d in the serial reference build", k, len(g), len(r))
		}
		for i := range r {
			if r[i] != g[i] {
				if rn, ok := normOf[r[i]]; ok {
					if gn, ok := normOf[g[i]]; ok && rn == gn {
						// identical up to the names of the parameters of a generic instance
						return "instance-parameter-names-depend-on-build-order", fmt.Sprintf("function %s differs from the serial build only in the names of its parameters:\n--- serial reference build\n%s\n--- this build\n%s", k, clip(r[i]), clip(g[i]))
					}
				}
				return "ir-differs-from-serial-build", fmt.Sprintf("function %s:\n--- serial reference build\n%s\n--- this build\n%s", k, clip(r[i]), clip(g[i]))
			}
		}
	}
	return "", ""
}

func clip(s string) string {
	if len(s) > 3000 {
		return s[:3000] + "\n...[clipped]"
	}
	return s
}

func create(ps *ProgSpec, mode ir.BuilderMode) (*ir.Program, []*ir.Package, *checked, error) {
	c, err := ps.typecheck()
	if err != nil {
		return nil, nil, nil, err
	}
	prog := ir.NewProgram(c.fset, mode)
	var pkgs []*ir.Package
	for _, name := range c.order {
		if name == "base" && ps.LibFromTypes && ps.BaseIndirect {
			continue
		}
		if (name == "lib" || name == "base") && ps.LibFromTypes {
			// like a dependency loaded from export data: no syntax, its
			// methods are created "from type information (on demand)"
			pkgs = append(pkgs, prog.CreatePackage(c.pkgs[name], nil, nil, true))
			continue
		}
		pkgs = append(pkgs, prog.CreatePackage(c.pkgs[name], c.files[name], c.infos[name], true))
	}
	return prog, pkgs, c, nil
}

// sharedReach returns the functions that must be complete when p.Build()
// returns: p's own functions and, transitively through operands, every
// synthetic function or generic instance (which are built by whichever
// builder asks first and waited for by the others).
func sharedReach(prog *ir.Program, p *ir.Package) []*ir.Function {
	seen := map[*ir.Function]bool{}
	var out []*ir.Function
	var visit func(fn *ir.Function, own bool)
	visit = func(fn *ir.Function, own bool) {
		if fn == nil || seen[fn] {
			return
		}
		// built on demand by whichever builder asks first (the property's
		// "method wrappers, bound-method thunks, generic instances");
		// package initializers and range-over-func bodies of other packages
		// are synthetic too, but belong to their own package's build.
		syn := fn.Synthetic
		shared := len(fn.TypeArgs()) > 0 || strings.HasPrefix(syn, "wrapper for ") || strings.HasPrefix(syn, "thunk for ") || strings.HasPrefix(syn, "bound method wrapper for ") || strings.HasPrefix(syn, "instance of ") || strings.HasPrefix(syn, "instantiation wrapper of ") || syn == "from type information (on demand)"
		if fn.Pkg != p && !shared {
			return
		}
		seen[fn] = true
		out = append(out, fn)
		for _, a := range fn.AnonFuncs {
			visit(a, own)
		}
		var buf [10]*ir.Value
		for _, b := range fn.Blocks {
			for _, instr := range b.Instrs {
				for _, op := range instr.Operands(buf[:0]) {
					if f, ok := (*op).(*ir.Function); ok {
						visit(f, false)
					}
				}
			}
		}
	}
	names := make([]string, 0, len(p.Members))
	for n := range p.Members {
		names = append(names, n)
	}
	sort.Strings(names)
	for _, n := range names {
		switch m := p.Members[n].(type) {
		case *ir.Function:
			visit(m, true)
		case *ir.Type:
			if named, ok := m.Type().(*types.Named); ok && named.TypeParams() == nil {
				for i := 0; i < named.NumMethods(); i++ {
					visit(prog.FuncValue(named.Method(i)), true)
				}
			}
		}
	}
	return out
}

type runner struct {
	ref  map[string][]string
	viol *batch.Violation
	cnt  map[string]int
	what string
}

func (r *runner) fail(class, f string, a ...any) {
	if r.viol == nil {
		r.viol = &batch.Violation{Class: class, Detail: r.what + ": " + fmt.Sprintf(f, a...)}
	}
}

// mode is "" (plain build), "simrace" (race build, simulated scheduler with
// race-invisible gates) or "freerace" (race build, no simulation). In the
// race modes the harness must not read other builders' state or share its own
// bookkeeping between tasks: that would be a race of the harness.
var raceMode string

// checkBuilt is called at the moment p.Build() returned in some task, while
// other builders may be parked in the middle of their work.
func (r *runner) checkBuilt(prog *ir.Program, p *ir.Package) {
	if raceMode != "" {
		return
	}
	for _, fn := range sharedReach(prog, p) {
		want, ok := r.ref[fnKey(fn)]
		if !ok {
			r.cnt["reach_not_in_reference"]++
			continue
		}
		got := dumpFn(fn)
		found := false
		for _, w := range want {
			if w == got {
				found = true
			}
		}
		r.cnt["functions_checked_at_build_return"]++
		if fn.Pkg != p {
			r.cnt["shared_functions_checked_at_build_return"]++
		}
		if !found {
			if gn, ok := normOf[got]; ok {
				for _, w := range want {
					if normOf[w] == gn {
						found = true
						r.cnt["instance_parameter_names_differ_at_build_return"]++
					}
				}
			} else if strings.HasPrefix(fn.Synthetic, "instance of ") || strings.HasPrefix(fn.Synthetic, "instantiation wrapper of ") {
				gn := paramNorm(fn, got)
				for _, w := range want {
					if normOf[w] == gn {
						found = true
						r.cnt["instance_parameter_names_differ_at_build_return"]++
					}
				}
			}
		}
		if !found {
			r.fail("not-fully-built-when-Build-returns", "Build of package %s returned, but function %s (package %v, synthetic %q) reachable from it is not the function the serial build produces:\n--- expected\n%s\n--- found at the moment Build returned\n%s", p.Pkg.Path(), fn.RelString(nil), pkgPath(fn), fn.Synthetic, clip(want[0]), clip(got))
			return
		}
	}
}

func pkgPath(fn *ir.Function) string {
	if fn.Pkg == nil {
		return "<none>"
	}
	return fn.Pkg.Pkg.Path()
}

func execute(c Case, tapes *[][]uint32) batch.Result {
	res := batch.Result{Counters: map[string]int{}}
	if raceMode != "" {
		batch.RaceReports() // drop anything reported before this case
	}
	mode := ir.BuilderMode(c.Mode)
	if c.CPULimit <= 0 {
		c.CPULimit = 4
	}
	setCPULimit(c.CPULimit)
	res.Counters[fmt.Sprintf("cpu_limit:%d", c.CPULimit)]++
	// reference: serial build of a fresh program, no simulation
	rprog, _, _, err := create(&c.Prog, mode|ir.BuildSerially)
	if err != nil {
		return batch.Result{Infra: "generated program does not type-check: " + err.Error()}
	}
	// The serial reference build runs inside the simulator as well (FIFO), so
	// that a build that never finishes is a modelled deadlock, not a hang.
	rvr := verifsim.Run(verifsim.Config{Strategy: verifsim.StratFIFO, StepBound: 2_000_000}, func() {
		rprog.Build()
		verifsim.Quiesce()
	})
	setCPULimit(c.CPULimit)
	if len(rvr.Panics) > 0 {
		return batch.Result{Violation: &batch.Violation{Class: "panic", Detail: fmt.Sprintf("serial reference build panicked: %s\n%s", rvr.Panics[0].Value, firstLines(rvr.Panics[0].Stack, 30))}}
	}
	if rvr.Deadlock != "" {
		return batch.Result{Violation: &batch.Violation{Class: "deadlock", Detail: "serial reference build: " + rvr.Deadlock}}
	}
	if rvr.StepBound {
		return batch.Result{Violation: &batch.Violation{Class: "step-bound", Detail: "serial reference build did not finish"}}
	}
	ref := dumpAll(rprog)
	if cl, d := duplicates(ref); cl != "" {
		return batch.Result{Violation: &batch.Violation{Class: cl, Detail: "serial reference build: " + d}}
	}
	nfn := 0
	for _, l := range ref {
		nfn += len(l)
	}
	res.Counters["reference_functions"] = nfn
	var digests []uint64
	for si := range c.Scheds {
		s := &c.Scheds[si]
		r := &runner{ref: ref, cnt: res.Counters}
		r.what = fmt.Sprintf("schedule #%d (driver %q, strategy %s, seed %d, cpuLimit %d)", si, driverNames[s.Driver%len(driverNames)], verifsim.Strategy(s.Strategy), s.Seed, c.CPULimit)
		prog, pkgs, chk, err := create(&c.Prog, mode)
		if err != nil {
			return batch.Result{Infra: err.Error()}
		}
		if raceMode != "" && si >= 10 {
			break
		}
		cfg := verifsim.Config{Seed: s.Seed, Strategy: verifsim.Strategy(s.Strategy), StratArg: s.StratArg, Horizon: 1500, MapOrder: true, StepBound: 2_000_000, RaceGates: raceMode == "simrace"}
		if s.Pinned {
			cfg.Tape = s.Tape
			if cfg.Tape == nil {
				cfg.Tape = []uint32{}
			}
		}
		var order []int
		inOrder := map[int]bool{}
		for _, i := range s.Order {
			if i >= 0 && i < len(pkgs) && !inOrder[i] {
				order = append(order, i)
				inOrder[i] = true
			}
		}
		for i := range pkgs {
			if !inOrder[i] {
				order = append(order, i)
			}
		}
		body := func() {
			var wg sync.WaitGroup
			buildPkg := func(p *ir.Package) {
				verifsim.WGAdd(&wg, 1)
				verifsim.Go(func() {
					defer verifsim.WGDone(&wg)
					p.Build()
					r.checkBuilt(prog, p)
				})
			}
			switch s.Driver % len(driverNames) {
			case 0:
				prog.Build()
			case 1:
				for _, i := range order {
					buildPkg(pkgs[i])
				}
				verifsim.WGWait(&wg)
			case 2:
				for _, i := range order {
					buildPkg(pkgs[i])
				}
				for k := len(order) - 1; k >= 0; k-- {
					buildPkg(pkgs[order[k]])
				}
				verifsim.WGWait(&wg)
			case 3:
				for k := 0; k < 2; k++ {
					verifsim.WGAdd(&wg, 1)
					verifsim.Go(func() {
						defer verifsim.WGDone(&wg)
						prog.Build()
						for _, p := range pkgs {
							r.checkBuilt(prog, p)
						}
					})
				}
				verifsim.WGWait(&wg)
			case 4:
				// concurrent clients asking for method implementations; all
				// callers must get the very same function for a selection
				handed := map[string]*ir.Function{}
				for _, name := range chk.order[2:] {
					tp := chk.pkgs[name]
					for _, tn := range []string{"Wrap", "PWrap", "Deep", "IW", "Mix", "WA", "BoxE", "PairB"} {
						obj := tp.Scope().Lookup(tn)
						if obj == nil {
							continue
						}
						// every selection is requested by two concurrent callers
						for _, T := range []types.Type{obj.Type(), types.NewPointer(obj.Type()), obj.Type(), types.NewPointer(obj.Type())} {
							T := T
							verifsim.WGAdd(&wg, 1)
							verifsim.Go(func() {
								defer verifsim.WGDone(&wg)
								ms := prog.MethodSets.MethodSet(T)
								for i := 0; i < ms.Len(); i++ {
									fn := prog.MethodValue(ms.At(i))
									if fn == nil || raceMode != "" {
										continue
									}
									r.cnt["method_value_calls"]++
									hk := canonTypeString(T) + "." + ms.At(i).Obj().Id() // Id, not Name: unexported methods of different packages may share a name
									if prev, ok := handed[hk]; ok && prev != fn {
										r.fail("function-created-more-than-once", "two callers of MethodValue(%s) got two distinct functions (%p and %p): the wrapper was created twice", ms.At(i), prev, fn)
									}
									handed[hk] = fn
									if want, ok := ref[fnKey(fn)]; ok {
										got := dumpFn(fn)
										if got != want[0] {
											r.fail("not-fully-built-when-MethodValue-returns", "MethodValue(%s) returned a function that is not the one the serial build produces:\n--- expected\n%s\n--- got\n%s", ms.At(i), clip(want[0]), clip(got))
										}
									}
								}
							})
						}
					}
				}
				prog.Build()
				verifsim.WGWait(&wg)
			case 5:
				for k, i := range order {
					if k%2 == 0 {
						buildPkg(pkgs[i])
					}
				}
				prog.Build()
				verifsim.WGWait(&wg)
				for _, p := range pkgs {
					r.checkBuilt(prog, p)
				}
			}
			// goroutines of Program.Build release their cpuLimit token after
			// wg.Done: let them finish (the "process" does not exit here)
			verifsim.Quiesce()
		}
		var vr verifsim.Result
		if raceMode == "freerace" {
			// no simulation: real goroutines, real parallelism
			old := runtime.GOMAXPROCS([]int{2, 4, 16}[si%3])
			body()
			// Program.Build's goroutines release their token after wg.Done
			for i := 0; i < 2000 && ir.VerifCPULimitLen() > 0; i++ {
				time.Sleep(100 * time.Microsecond)
			}
			runtime.GOMAXPROCS(old)
		} else {
			vr = verifsim.Run(cfg, body)
		}
		setCPULimit(c.CPULimit)
		if rep := batch.RaceReports(); rep != "" {
			res.Counters["race_reports"] += strings.Count(rep, "WARNING: DATA RACE")
			fr := firstReport(rep)
			r.fail(raceClass(fr), "the race detector reported:\n%s", fr)
		}
		if tapes != nil {
			*tapes = append(*tapes, vr.Tape)
		}
		res.Steps += vr.Steps
		res.Decisions += vr.Decisions
		res.Counters["driver:"+driverNames[s.Driver%len(driverNames)]]++
		res.Counters["strategy:"+verifsim.Strategy(s.Strategy).String()]++
		res.Counters["tasks"] += vr.Tasks
		res.Counters["max_parallel_sum"] += vr.MaxParallel
		res.Counters["uncanonical_map_sites"] += vr.Uncanonical
		if len(vr.Panics) > 0 {
			p := vr.Panics[0]
			r.fail("panic", "task %d panicked: %s\n%s", p.Task, p.Value, firstLines(p.Stack, 30))
		}
		if vr.Deadlock != "" {
			r.fail("deadlock", "%s", vr.Deadlock)
		}
		if vr.StepBound {
			r.fail("step-bound", "build did not finish within the bound on scheduling steps")
		}
		if r.viol == nil {
			got := dumpAll(prog)
			if cl, d := duplicates(got); cl != "" {
				r.fail(cl, "%s", d)
			} else if cl, d := diffDumps(ref, got); cl != "" {
				r.fail(cl, "%s", d)
			} else {
				// idempotence: building again changes nothing. This runs in a
				// simulation of its own: Program.Build starts goroutines that
				// outlive it (they release their cpuLimit token after
				// wg.Done), and a goroutine of pass-through code that is still
				// running when the next simulation starts would enter the
				// kernel as if it were the running task.
				ivr := verifsim.Run(verifsim.Config{Strategy: verifsim.StratFIFO, StepBound: 2_000_000, RaceGates: raceMode != ""}, func() {
					prog.Build()
					for _, p := range pkgs {
						p.Build()
					}
					verifsim.Quiesce()
				})
				setCPULimit(c.CPULimit)
				if len(ivr.Panics) > 0 || ivr.Deadlock != "" || ivr.StepBound {
					r.fail("build-not-idempotent", "calling Build again panicked or did not finish: %v %s", ivr.Panics, ivr.Deadlock)
				}
				again := dumpAll(prog)
				if cl, d := diffDumps(got, again); cl != "" {
					r.fail("build-not-idempotent", "after calling Build again: %s: %s", cl, d)
				}
			}
			h := fnv.New64a()
			for _, k := range sortedKeys(got) {
				h.Write([]byte(k))
				for _, d := range got[k] {
					h.Write([]byte(d))
				}
			}
			digests = append(digests, vr.Digest^h.Sum64())
		}
		if r.viol != nil && res.Violation == nil {
			res.Violation = r.viol
		}
	}
	res.Evals = len(c.Scheds)
	res.Digests = digests
	for _, d := range digests {
		res.Digest = res.Digest*1099511628211 ^ d
	}
	res.Sample = map[string]any{"user_packages": len(c.Prog.Users), "stmts_u0": c.Prog.Users[0].Stmts, "mode": ir.BuilderMode(c.Mode).String(), "schedules": len(c.Scheds), "first_schedule": c.Scheds[0], "functions": nfn, "cpu_limit": c.CPULimit}
	return res
}

var cpuLimitSet bool

// setCPULimit installs a fresh build semaphore. In the free-running race mode
// the variable is written only once per OS process (before any builder
// goroutine exists): replacing it while goroutines of an earlier build may
// still read it would be a data race of the harness, not of go/ir.
func setCPULimit(n int) {
	if raceMode == "freerace" {
		if !cpuLimitSet {
			ir.VerifSetCPULimit(16)
			cpuLimitSet = true
		}
		return
	}
	ir.VerifSetCPULimit(n)
}

func firstLines(s string, n int) string {
	l := strings.Split(s, "\n")
	if len(l) > n {
		l = l[:n]
	}
	return strings.Join(l, "\n")
}

type engine struct{}

func (engine) Name() string {
	if raceMode != "" {
		return "irsim-" + raceMode
	}
	return "irsim"
}

func firstReport(rep string) string {
	i := strings.Index(rep, "WARNING: DATA RACE")
	if i < 0 {
		return rep
	}
	rep = rep[i:]
	if j := strings.Index(rep, "=================="); j > 0 {
		rep = rep[:j]
	}
	l := strings.Split(rep, "\n")
	if len(l) > 60 {
		l = l[:60]
	}
	return strings.Join(l, "\n")
}

func raceClass(rep string) string {
	// the first two distinct source locations of the program under test
	// (file:line in the instrumented copy), harness and kernel frames skipped
	var fr []string
	for _, l := range strings.Split(rep, "\n") {
		l = strings.TrimSpace(l)
		if !strings.HasPrefix(l, "honnef.co/go/tools/") || strings.Contains(l, "/internal/verif") || !strings.Contains(l, ".go:") {
			continue
		}
		f := strings.TrimPrefix(l, "honnef.co/go/tools/")
		if k := strings.Index(f, " "); k > 0 {
			f = f[:k]
		}
		dup := false
		for _, x := range fr {
			if x == f {
				dup = true
			}
		}
		if !dup {
			fr = append(fr, f)
		}
		if len(fr) == 2 {
			break
		}
	}
	return "data-race:" + strings.Join(fr, "+")
}
func (engine) Property() string { return "C18" }

func (engine) Generate(seed uint64, index int, tier string) json.RawMessage {
	r := genmod.Rng(seed)
	c := Case{Prog: genProg(&r, tier)}
	modes := []ir.BuilderMode{0, ir.InstantiateGenerics, ir.InstantiateGenerics | ir.GlobalDebug, ir.InstantiateGenerics | ir.SanityCheckFunctions, ir.NaiveForm | ir.InstantiateGenerics, ir.GlobalDebug, ir.BareInits | ir.InstantiateGenerics}
	c.Mode = uint(modes[r.N(len(modes))])
	c.CPULimit = []int{1, 2, 4, 16}[r.N(4)]
	n := 25
	if tier == "thorough" {
		n = 50
	}
	np := len(c.Prog.Users) + 2
	for i := 0; i < n; i++ {
		s := Sched{Seed: r.Next(), Strategy: 1 + r.N(4), Driver: r.N(len(driverNames))}
		switch verifsim.Strategy(s.Strategy) {
		case verifsim.StratSwitchP:
			s.StratArg = []int{10, 60, 300}[r.N(3)]
		case verifsim.StratPCT:
			s.StratArg = 1 + r.N(5)
		case verifsim.StratPreempt:
			s.StratArg = r.N(9)
		}
		perm := make([]int, np)
		for j := range perm {
			perm[j] = j
		}
		for j := np - 1; j > 0; j-- {
			k := r.N(j + 1)
			perm[j], perm[k] = perm[k], perm[j]
		}
		s.Order = perm
		c.Scheds = append(c.Scheds, s)
	}
	b, _ := json.Marshal(c)
	return b
}

func (engine) Execute(raw json.RawMessage) batch.Result {
	var c Case
	if err := json.Unmarshal(raw, &c); err != nil {
		return batch.Result{Infra: err.Error()}
	}
	return execute(c, nil)
}

func (engine) Minimize(raw json.RawMessage, still func(json.RawMessage) bool) json.RawMessage {
	var c Case
	json.Unmarshal(raw, &c)
	enc := func(c Case) json.RawMessage { b, _ := json.Marshal(c); return b }
	var tapes [][]uint32
	execute(c, &tapes)
	if len(tapes) == len(c.Scheds) {
		c2 := c
		c2.Scheds = append([]Sched(nil), c.Scheds...)
		for i := range c2.Scheds {
			c2.Scheds[i].Pinned = true
			c2.Scheds[i].Tape = tapes[i]
		}
		if still(enc(c2)) {
			c = c2
		}
	}
	keep := batch.DDMin(len(c.Scheds), func(keep []bool) bool {
		c2 := c
		c2.Scheds = nil
		for i, k := range keep {
			if k {
				c2.Scheds = append(c2.Scheds, c.Scheds[i])
			}
		}
		return len(c2.Scheds) > 0 && still(enc(c2))
	})
	var ns []Sched
	for i, k := range keep {
		if k {
			ns = append(ns, c.Scheds[i])
		}
	}
	c.Scheds = ns
	// drop trailing user packages
	for len(c.Prog.Users) > 1 {
		c2 := c
		c2.Prog.Users = c.Prog.Users[:len(c.Prog.Users)-1]
		c2.Scheds = append([]Sched(nil), c.Scheds...)
		for i := range c2.Scheds {
			c2.Scheds[i].Order = nil
		}
		if !still(enc(c2)) {
			break
		}
		c = c2
	}
	// drop statements
	type ref struct{ u, s int }
	var refs []ref
	for ui, u := range c.Prog.Users {
		for si := range u.Stmts {
			refs = append(refs, ref{ui, si})
		}
	}
	build := func(keep []bool) Case {
		c2 := c
		c2.Prog.Users = nil
		k := 0
		for _, u := range c.Prog.Users {
			nu := u
			nu.Stmts = nil
			for _, s := range u.Stmts {
				if keep[k] {
					nu.Stmts = append(nu.Stmts, s)
				}
				k++
			}
			if len(nu.Stmts) == 0 {
				nu.Stmts = []string{"dep"}
			}
			c2.Prog.Users = append(c2.Prog.Users, nu)
		}
		return c2
	}
	kp := batch.DDMin(len(refs), func(keep []bool) bool { return still(enc(build(keep))) })
	c = build(kp)
	for i := range c.Scheds {
		if c.Scheds[i].Pinned && len(c.Scheds[i].Tape) > 0 {
			c.Scheds[i].Tape = batch.MinimizeTape(c.Scheds[i].Tape, func(t []uint32) bool {
				c2 := c
				c2.Scheds = append([]Sched(nil), c.Scheds...)
				c2.Scheds[i].Tape = t
				return still(enc(c2))
			})
		}
	}
	return enc(c)
}

func (engine) Describe() batch.Description {
	return batch.Description{
		Rule: "each case: one seeded program (a generic library package and 2-6 (thorough 2-13) user packages that instantiate the same generic functions/methods with the same type arguments, convert types with promoted methods (embedded struct, embedded pointer, embedded interface, two levels) to interfaces, take bound method values, method expressions and interface method values, use range-over-func, and call each other) type-checked from scratch per build; built serially without simulation as reference, then under 25 (thorough 50) seeded (schedule, driver) combinations with drivers {prog.Build; one task per package; two tasks per package; prog.Build twice concurrently; prog.Build with concurrent MethodValue callers; per-package Build of a subset plus prog.Build}; builder modes {0, InstantiateGenerics, +GlobalDebug, +SanityCheckFunctions, +NaiveForm, GlobalDebug, BareInits}; cpuLimit capacity in {1,2,4,16} (per case). An evaluation is one simulated build; distinct = distinct (kernel event digest, IR dump) pairs.",
		Assumptions: []string{
			"IR equality is textual equality of WriteFunction output after renaming t<N> values by first occurrence",
			"the check at the moment Build returns reads other builders' state while they are parked (sound only because the simulator runs one task at a time)",
			"go/types is outside the simulator; every program is type-checked afresh so that no lazily computed type state is shared between builds",
		},
		RealVsStub: map[string]string{"go/ir (builder, task graph, method sets, instantiation, wrappers)": "real (instrumented)", "go/types, go/parser": "real", "Go scheduler, sync primitives, cpuLimit capacity": "simulated"},
		FaultKinds: []string{"schedule", "package build order", "concurrent and repeated Build", "concurrent MethodValue", "map iteration order", "cpuLimit capacity"},
	}
}

func main() {
	var rest []string
	for _, a := range os.Args[1:] {
		if strings.HasPrefix(a, "-family=") {
			raceMode = a[len("-family="):]
			batch.ExtraWorkerArgs = append(batch.ExtraWorkerArgs, a)
		} else {
			rest = append(rest, a)
		}
	}
	os.Args = append(os.Args[:1], rest...)
	if raceMode != "" {
		batch.WorkerEnv = batch.RaceEnv
	}
	batch.Main(engine{})
}
