// Command cachesim2 is the C05 layer-2 engine: complete linter processes
// (real runner, real analyzers) sharing one simulated cache directory while
// being killed at arbitrary file-system calls and inside writes, with cache
// files truncated or removed between phases, clock jumps and concurrently
// trimming processes. Every linter process that completes must print exactly
// what a run without any cache history prints. See /verif/DESIGN.md §6.2.
package main

import (
	"encoding/json"
	"fmt"
	"hash/fnv"
	"os"
	"path/filepath"
	"regexp"
	"strings"
	"time"

	"honnef.co/go/tools/internal/verifharness/batch"
	"honnef.co/go/tools/internal/verifharness/genmod"
	"honnef.co/go/tools/internal/verifharness/simlint"
	"honnef.co/go/tools/internal/verifhook"
	"honnef.co/go/tools/internal/verifsim"
	"honnef.co/go/tools/internal/verifsim/simos"
	"honnef.co/go/tools/lintcmd/cache"
)

type Proc struct {
	Kind     string `json:"kind"` // "lint", "trim", "clock"
	D        int64  `json:"d,omitempty"`
	Patterns []int  `json:"patterns,omitempty"` // lint: nil means ./... ; else these packages (the others are analysed for facts only)
}

type Env struct {
	K     string `json:"k"` // "trunc", "remove", "clock"
	File  int    `json:"file,omitempty"`
	Pm    int    `json:"pm,omitempty"`
	Minus int    `json:"minus,omitempty"`
	D     int64  `json:"d,omitempty"`
}

type Phase struct {
	Procs    []Proc           `json:"procs"`
	Faults   []verifsim.Fault `json:"faults,omitempty"` // Proc is the 1-based index within the phase
	After    []Env            `json:"after,omitempty"`
	Seed     uint64           `json:"seed"`
	Strategy int              `json:"strategy"`
	StratArg int              `json:"strat_arg"`
	Workers  int              `json:"workers"`
	Pinned   bool             `json:"pinned,omitempty"`
	Tape     []uint32         `json:"tape,omitempty"`
}

type Case struct {
	Mod    genmod.Mod `json:"mod"`
	Flags  []string   `json:"flags"`
	Phases []Phase    `json:"phases"`
}

func h64(s string) uint64 {
	h := fnv.New64a()
	h.Write([]byte(s))
	return h.Sum64()
}

type rec struct{ tapes [][]uint32 }

var vanishedRe = regexp.MustCompile(`open (/simcache/[0-9a-f]{2}/[0-9a-f]{64}-[ad]): no such file or directory`)

func execute(c Case, tr *rec) batch.Result {
	dir := batch.ModDir("cachesim2", c.Mod.Digest())
	defer batch.LockModDir(dir)()
	if err := c.Mod.Write(dir); err != nil {
		return batch.Result{Infra: err.Error()}
	}
	defer os.RemoveAll(dir)
	defer verifhook.Forget()
	verifhook.State = c.Mod.Digest()
	res := batch.Result{Counters: map[string]int{}}
	fail := func(class, f string, a ...any) {
		if res.Violation == nil {
			res.Violation = &batch.Violation{Class: class, Detail: fmt.Sprintf(f, a...)}
		}
	}
	invFor := func(patterns []int) simlint.Inv {
		args := append([]string{"-f", "json"}, c.Flags...)
		if patterns == nil {
			args = append(args, "./...")
		}
		for _, p := range patterns {
			args = append(args, fmt.Sprintf("./p%d", p%len(c.Mod.Pkgs)))
		}
		return simlint.Inv{Args: args, Dir: dir}
	}
	epoch := time.Unix(1_700_000_000, 0)
	now := epoch
	// references (no cache history), one per pattern list
	refs := map[string]simlint.Out{}
	var refErr *batch.Result
	refFor := func(patterns []int) simlint.Out {
		key := fmt.Sprint(patterns)
		if r, ok := refs[key]; ok {
			return r
		}
		ref, _, rvr := simlint.RunOne(verifsim.Config{Strategy: verifsim.StratFIFO, Procs: 1, StepBound: 5_000_000, Epoch: epoch}, nil, invFor(patterns))
		if cl, d := simlint.Problems(rvr); cl != "" {
			fail(cl, "reference run without cache history: %s", d)
		}
		if ref.Exit > 1 && refErr == nil {
			refErr = &batch.Result{Infra: fmt.Sprintf("reference run failed: exit %d: %s", ref.Exit, ref.Stderr)}
		}
		refs[key] = ref
		return ref
	}
	refFor(nil)
	if refErr != nil {
		return *refErr
	}
	if res.Violation != nil {
		return res
	}
	var disk *simos.FS
	var digests []uint64
	for pi := range c.Phases {
		ph := &c.Phases[pi]
		cfg := verifsim.Config{Seed: ph.Seed, Strategy: verifsim.Strategy(ph.Strategy), StratArg: ph.StratArg, Procs: ph.Workers, MapOrder: true, Horizon: 8000, StepBound: 8_000_000, Epoch: now, Faults: ph.Faults}
		if ph.Pinned {
			cfg.Tape = ph.Tape
			if cfg.Tape == nil {
				cfg.Tape = []uint32{}
			}
		}
		outs := make([]simlint.Out, len(ph.Procs))
		removedBefore := 0
		if disk != nil {
			removedBefore = len(disk.Removed)
		}
		var s simlint.Session
		var end time.Time
		fsops := make([]int, len(ph.Procs))
		vr := verifsim.Run(cfg, func() {
			disk = s.Disk(disk)
			var ps []verifsim.Proc
			for i, p := range ph.Procs {
				switch p.Kind {
				case "lint":
					ps = append(ps, s.Start(fmt.Sprintf("lint%d", i), invFor(p.Patterns), &outs[i]))
				case "trim":
					ps = append(ps, verifsim.Spawn(fmt.Sprintf("trim%d", i), func() {
						if c, err := cache.Open(simlint.CacheRoot); err == nil {
							c.Trim()
						}
					}))
				case "clock":
					d := p.D
					ps = append(ps, verifsim.Spawn(fmt.Sprintf("clock%d", i), func() {
						verifsim.Yield()
						verifsim.Yield()
						verifsim.Advance(time.Duration(d) * time.Second)
					}))
				}
			}
			for i, p := range ps {
				s.Finish(p, &outs[i])
				fsops[i] = verifsim.FSOps(p)
			}
			end = verifsim.Now()
		})
		if tr != nil {
			tr.tapes = append(tr.tapes, vr.Tape)
		}
		if !end.IsZero() {
			now = end
		}
		res.Steps += vr.Steps
		res.Decisions += vr.Decisions
		for k, v := range vr.Fired {
			res.Counters["fault:"+k] += v
		}
		dg := vr.Digest
		what := fmt.Sprintf("phase %d (%d processes, strategy %s, %d workers, faults %v)", pi, len(ph.Procs), verifsim.Strategy(ph.Strategy), ph.Workers, ph.Faults)
		if len(vr.Panics) > 0 {
			p := vr.Panics[0]
			if p.Proc == 0 {
				return batch.Result{Infra: "controller panic: " + p.Value + "\n" + p.Stack}
			}
			fail("panic", "%s: process %d panicked: %s\n%s", what, p.Proc, p.Value, firstLines(p.Stack, 30))
		}
		if vr.Deadlock != "" {
			fail("deadlock", "%s: %s", what, vr.Deadlock)
		}
		if vr.StepBound {
			fail("step-bound", "%s: step bound exceeded", what)
		}
		for i, p := range ph.Procs {
			if p.Kind != "lint" {
				continue
			}
			res.Counters["lint_processes"]++
			res.Counters["lint_fsops"] += fsops[i]
			o := outs[i]
			dg ^= h64(strings.ReplaceAll(o.Stdout, dir, "$DIR")) * uint64(i+1)
			if o.Crashed {
				res.Counters["lint_processes_killed"]++
				continue
			}
			res.Counters["lint_processes_completed"]++
			if p.Patterns != nil {
				res.Counters["lint_processes_with_facts_only_dependencies"]++
			}
			ref := refFor(p.Patterns)
			if refErr != nil {
				return *refErr
			}
			if !o.Same(ref) {
				d := strings.ReplaceAll(simlint.Diff(ref, o), dir, "$DIR")
				cl := "linter-output-through-cache-differs"
				extra := ""
				// Narrow class for the one known defect: the linter failed
				// to open a cache file that a *different* process removed
				// (os.Remove, i.e. Trim) during this very phase.
				if m := vanishedRe.FindStringSubmatch(o.Stdout + "\n" + o.Stderr); m != nil {
					for _, rm := range disk.Removed[removedBefore:] {
						if rm.Path == m[1] && rm.Proc != i+1 {
							// ... and only when the remover had seen, in its
							// own Stat of that file, an mtime at least a day
							// in the past (the known defect is the window
							// between that Stat and the Remove, in which the
							// linter looks the entry up and refreshes it).
							// Removing a file whose mtime it saw as recent
							// is a different failure.
							if rm.StatAge >= 86400 {
								cl = "linter-fails-on-cache-file-removed-by-concurrent-trim"
							} else {
								cl = "linter-fails-on-recently-used-cache-file-removed-by-another-process"
							}
							extra = fmt.Sprintf("\n%s was removed during this phase by process %d (%s), which had last seen its mtime %.0f s in the past, while linter process %d still held its name", filepath.Base(m[1]), rm.Proc, ph.Procs[rm.Proc-1].Kind, rm.StatAge, i+1)
						}
					}
				}
				fail(cl, "%s: linter process %d completed but printed something else than a run without cache history:\n%s\n(- without cache history, + this process)\nstderr: %s%s", what, i+1, d, o.Stderr, extra)
			}
		}
		digests = append(digests, dg^simlint.DiskDigest(disk))
		// reach probes
		for _, e := range disk.Walk() {
			if e.Size == 0 && strings.HasSuffix(e.Path, "-d") {
				res.Counters["probe:phase-ends-with-empty-output-in-cache"]++
				break
			}
		}
		for _, rm := range disk.Removed[removedBefore:] {
			if strings.HasSuffix(rm.Path, "-d") || strings.HasSuffix(rm.Path, "-a") {
				res.Counters["probe:cache-entries-removed-by-trim"]++
				if rm.StatAge < 86400 {
					res.Counters["probe:cache-entries-removed-although-seen-fresh"]++
				}
			}
		}
		if res.Violation != nil {
			break
		}
		for _, ev := range ph.After {
			switch ev.K {
			case "clock":
				now = now.Add(time.Duration(ev.D) * time.Second)
				res.Counters["fault:clock"]++
			case "trunc", "remove":
				var files []simos.Entry
				for _, e := range disk.Walk() {
					if !strings.Contains(e.Path, "/.tmp/") {
						files = append(files, e)
					}
				}
				if len(files) == 0 {
					continue
				}
				f := files[ev.File%len(files)]
				if ev.K == "remove" {
					disk.Damage(f.Path, -1)
					res.Counters["damage:remove"]++
				} else {
					n := f.Size*ev.Pm/1000 - ev.Minus
					if n < 0 {
						n = 0
					}
					if n > f.Size {
						n = f.Size
					}
					disk.Damage(f.Path, int64(n))
					res.Counters["damage:trunc"]++
				}
			}
		}
	}
	res.SimTime = now.Sub(epoch).Seconds()
	res.Evals = res.Counters["lint_processes"] + 1
	res.Digests = digests
	for _, d := range digests {
		res.Digest = res.Digest*1099511628211 ^ d
	}
	res.Trivial = res.Counters["lint_processes_completed"] == 0
	res.Sample = map[string]any{"packages": len(c.Mod.Pkgs), "flags": c.Flags, "phases": c.Phases, "digest": fmt.Sprintf("%x", res.Digest)}
	return res
}

func firstLines(s string, n int) string {
	l := strings.Split(s, "\n")
	if len(l) > n {
		l = l[:n]
	}
	return strings.Join(l, "\n")
}

type engine struct{}

func (engine) Name() string     { return "cachesim2" }
func (engine) Property() string { return "C05" }

var clockJumps = []int64{61 * 60, 25 * 3600, 5*86400 + 61*60, 6 * 86400, 30 * 86400}

func (engine) Generate(seed uint64, index int, tier string) json.RawMessage {
	r := genmod.Rng(seed)
	npkg := 2 + r.N(4)
	m := genmod.Generate(&r, npkg, genmod.Shapes[r.N(len(genmod.Shapes))], false)
	if len(m.Pkgs) > 1 && len(m.Pkgs[1].Imports) == 0 {
		m.Pkgs[1].Imports = []int{0}
	}
	c := Case{Mod: *m, Flags: []string{"-checks", "all", "-tests=false"}}
	nph := 2 + r.N(4)
	if tier == "thorough" {
		nph = 2 + r.N(7)
	}
	trimmy := r.P(400) // cases biased towards expiry and concurrent trimming
	for pi := 0; pi < nph; pi++ {
		ph := Phase{Seed: r.Next(), Strategy: 1 + r.N(4), Workers: []int{1, 2, 4}[r.N(3)]}
		switch verifsim.Strategy(ph.Strategy) {
		case verifsim.StratSwitchP:
			ph.StratArg = []int{5, 30, 200}[r.N(3)]
		case verifsim.StratPCT:
			ph.StratArg = 1 + r.N(5)
		case verifsim.StratPreempt:
			ph.StratArg = r.N(9)
		}
		np := 1 + r.N(3)
		for i := 0; i < np; i++ {
			k := "lint"
			if i > 0 && trimmy && r.P(500) {
				k = []string{"trim", "clock"}[r.N(2)]
			}
			p := Proc{Kind: k}
			if k == "clock" {
				p.D = clockJumps[r.N(len(clockJumps))]
			}
			if k == "lint" && r.P(400) {
				// name only some packages: their dependencies are analysed for facts only
				p.Patterns = []int{npkg - 1 - r.N((npkg+1)/2)}
				if r.P(400) {
					// any package, also one that others import: later
					// processes then find it cached and its importers not
					p.Patterns = []int{r.N(npkg)}
				}
				if r.P(300) {
					p.Patterns = append(p.Patterns, r.N(npkg))
				}
			}
			ph.Procs = append(ph.Procs, p)
			if k == "lint" && r.P(450) {
				f := verifsim.Fault{Proc: i + 1, Op: r.N(160 * npkg)}
				switch r.N(3) {
				case 0:
					f.Kind = "crash"
				case 1:
					f.Kind = "crash_write"
					f.Arg = int64([]int{0, 1, 30, 100, 174, 500, 4000}[r.N(7)])
				case 2:
					f.Kind = "torn"
					f.Arg = int64([]int{1, 30, 100, 174, 500}[r.N(5)])
				}
				ph.Faults = append(ph.Faults, f)
			}
		}
		if pi < nph-1 {
			for k := r.N(4); k > 0; k-- {
				switch r.N(5) {
				case 0, 1:
					ph.After = append(ph.After, Env{K: "trunc", File: r.N(1000), Pm: []int{0, 1, 500, 990}[r.N(4)], Minus: r.N(3)})
				case 2:
					ph.After = append(ph.After, Env{K: "remove", File: r.N(1000)})
				default:
					ph.After = append(ph.After, Env{K: "clock", D: clockJumps[r.N(len(clockJumps))]})
				}
			}
			if trimmy && r.P(600) {
				if r.P(350) {
					// a trim is due, nothing has expired
					ph.After = append(ph.After, Env{K: "clock", D: clockJumps[1]})
				} else {
					ph.After = append(ph.After, Env{K: "clock", D: clockJumps[2+r.N(3)]})
				}
			}
		}
		c.Phases = append(c.Phases, ph)
	}
	b, _ := json.Marshal(c)
	return b
}

func (engine) Execute(raw json.RawMessage) batch.Result {
	var c Case
	if err := json.Unmarshal(raw, &c); err != nil {
		return batch.Result{Infra: err.Error()}
	}
	return execute(c, nil)
}

func (engine) Minimize(raw json.RawMessage, still func(json.RawMessage) bool) json.RawMessage {
	var c Case
	json.Unmarshal(raw, &c)
	enc := func(c Case) json.RawMessage { b, _ := json.Marshal(c); return b }
	var tr rec
	execute(c, &tr)
	c2 := c
	c2.Phases = append([]Phase(nil), c.Phases...)
	for i := range c2.Phases {
		if i < len(tr.tapes) {
			c2.Phases[i].Pinned = true
			c2.Phases[i].Tape = tr.tapes[i]
		}
	}
	c2.Phases = c2.Phases[:min(len(c2.Phases), len(tr.tapes))]
	if len(c2.Phases) > 0 && still(enc(c2)) {
		c = c2
	}
	// drop whole phases from the front (keeps the failing phase last)
	for len(c.Phases) > 1 {
		c3 := c
		c3.Phases = c.Phases[1:]
		if !still(enc(c3)) {
			break
		}
		c = c3
	}
	// drop faults and environment events
	type ref struct{ ph, kind, i int }
	var refs []ref
	for pi, ph := range c.Phases {
		for i := range ph.Faults {
			refs = append(refs, ref{pi, 0, i})
		}
		for i := range ph.After {
			refs = append(refs, ref{pi, 1, i})
		}
	}
	build := func(keep []bool) Case {
		c4 := c
		c4.Phases = nil
		k := 0
		for _, ph := range c.Phases {
			np := ph
			np.Faults, np.After = nil, nil
			for _, f := range ph.Faults {
				if keep[k] {
					np.Faults = append(np.Faults, f)
				}
				k++
			}
			for _, e := range ph.After {
				if keep[k] {
					np.After = append(np.After, e)
				}
				k++
			}
			c4.Phases = append(c4.Phases, np)
		}
		return c4
	}
	kp := batch.DDMin(len(refs), func(keep []bool) bool { return still(enc(build(keep))) })
	c = build(kp)
	for len(c.Mod.Pkgs) > 2 {
		c5 := c
		c5.Mod = *c.Mod.Clone()
		c5.Mod.Pkgs = c5.Mod.Pkgs[:len(c5.Mod.Pkgs)-1]
		if !still(enc(c5)) {
			break
		}
		c = c5
	}
	for i := range c.Phases {
		if c.Phases[i].Pinned && len(c.Phases[i].Tape) > 0 {
			c.Phases[i].Tape = batch.MinimizeTape(c.Phases[i].Tape, func(t []uint32) bool {
				c6 := c
				c6.Phases = append([]Phase(nil), c.Phases...)
				c6.Phases[i].Tape = t
				return still(enc(c6))
			})
		}
	}
	return enc(c)
}

func (engine) Describe() batch.Description {
	return batch.Description{
		Rule: "each case: a seeded module (2-5 packages with facts flowing through imports) and 2-5 (thorough 2-8) phases; in every phase 1-3 simulated processes (complete linter runs, pure trimmers, a clock-jumping process) run concurrently on the one simulated cache directory under a seeded schedule, with seeded faults that kill a linter before a file-system call or inside a write (after k bytes) or tear a write; between phases seeded truncation/removal of cache files and clock jumps (so that Close->Trim and trimmers expire entries). Every linter process that completes must print what a run without cache history prints. An evaluation is one linter process; distinct = distinct (kernel event digest, outputs) per phase; non-trivial = at least one linter completed.",
		Assumptions: []string{
			"process death model: completed write(2) calls survive; truncation/removal model the rest",
			"truncation and removal by the environment happen between phases (before the lookups); removal by a concurrent Trim happens during runs",
			"a killed linter's output is not compared (it never finished printing)",
		},
		RealVsStub: map[string]string{"lintcmd/runner": "real (instrumented)", "lintcmd/cache, renameio": "real (instrumented) on simos", "analyzers": "real", "go list / compiler": "real subprocess, memoised", "file system of the cache, clock, scheduler": "simulated"},
		FaultKinds: []string{"crash", "crash_write", "torn", "damage(trunc/remove)", "clock", "concurrent trim", "concurrent linters", "restart"},
	}
}

// ---------------------------------------------------------------------------
// enumeration: every crash point of a linter run, every truncation length
// class of every cache file it leaves

type enumEngine struct {
	cases []Case
}

func (e *enumEngine) Name() string     { return "cachesim2-enum" }
func (e *enumEngine) Property() string { return "C05" }

func enumModules(tier string) []*genmod.Mod {
	var out []*genmod.Mod
	n := 2
	if tier == "thorough" {
		n = 4
	}
	for i := 0; i < n; i++ {
		r := genmod.Rng(1000 + i)
		m := genmod.Generate(&r, 2+i%2, "chain", false)
		// make sure facts flow and problems exist
		for j := range m.Pkgs {
			m.Pkgs[j].DepFunc, m.Pkgs[j].DepMethod, m.Pkgs[j].Pure, m.Pkgs[j].NonNil = 1, 1, true, true
			m.Pkgs[j].Local |= genmod.LSelfAssign
			m.Pkgs[j].RangeInt = false
		}
		m.Path = fmt.Sprintf("example.com/enum%d", i)
		out = append(out, m)
	}
	return out
}

func (e *enumEngine) build(tier string) {
	if e.cases != nil {
		return
	}
	flags := []string{"-checks", "all", "-tests=false"}
	readers := []Proc{{Kind: "lint"}, {Kind: "lint", Patterns: []int{1}}}
	for _, m := range enumModules(tier) {
		base := Case{Mod: *m, Flags: flags, Phases: []Phase{
			{Procs: []Proc{{Kind: "lint"}}, Strategy: int(verifsim.StratFIFO), Workers: 2},
			{Procs: readers[:1], Strategy: int(verifsim.StratFIFO), Workers: 2},
			{Procs: readers[1:], Strategy: int(verifsim.StratFIFO), Workers: 2},
		}}
		e.cases = append(e.cases, base)
		// learn the writer's file system operations and the files it leaves
		ops, files := dryRun(base)
		for _, rec := range ops {
			c := base
			c.Phases = append([]Phase(nil), base.Phases...)
			ph := c.Phases[0]
			ph.Faults = []verifsim.Fault{{Kind: "crash", Proc: 1, Op: rec.Op}}
			c.Phases[0] = ph
			e.cases = append(e.cases, c)
			if rec.Kind == "write" {
				ks := []int{0, 1, rec.Len / 2, rec.Len - 1}
				if tier == "thorough" {
					for k := 2; k < rec.Len; k += 1 + rec.Len/23 {
						ks = append(ks, k)
					}
				}
				seen := map[int]bool{}
				for _, k := range ks {
					if k < 0 || k > rec.Len || seen[k] {
						continue
					}
					seen[k] = true
					c := base
					c.Phases = append([]Phase(nil), base.Phases...)
					ph := c.Phases[0]
					ph.Faults = []verifsim.Fault{{Kind: "crash_write", Proc: 1, Op: rec.Op, Arg: int64(k)}}
					c.Phases[0] = ph
					e.cases = append(e.cases, c)
				}
			}
		}
		for fi, f := range files {
			lens := []int{0, 1, f.Size / 2, f.Size - 1}
			if tier == "thorough" {
				for k := 2; k < f.Size; k += 1 + f.Size/17 {
					lens = append(lens, k)
				}
			}
			seen := map[int]bool{}
			for _, l := range lens {
				if l < 0 || l >= f.Size || seen[l] {
					continue
				}
				seen[l] = true
				c := base
				c.Phases = append([]Phase(nil), base.Phases...)
				ph := c.Phases[0]
				ph.After = []Env{{K: "trunc", File: fi, Pm: 0, Minus: -l}}
				c.Phases[0] = ph
				e.cases = append(e.cases, c)
			}
			c := base
			c.Phases = append([]Phase(nil), base.Phases...)
			ph := c.Phases[0]
			ph.After = []Env{{K: "remove", File: fi}}
			c.Phases[0] = ph
			e.cases = append(e.cases, c)
		}
	}
}

// dryRun executes the first phase of a case fault-free and returns the
// linter's file system operations and the cache files it leaves.
func dryRun(c Case) ([]simos.OpRec, []simos.Entry) {
	dir := batch.ModDir("cachesim2", c.Mod.Digest())
	defer batch.LockModDir(dir)()
	if err := c.Mod.Write(dir); err != nil {
		return nil, nil
	}
	defer os.RemoveAll(dir)
	defer verifhook.Forget()
	verifhook.State = c.Mod.Digest()
	args := append([]string{"-f", "json"}, c.Flags...)
	args = append(args, "./...")
	var s simlint.Session
	var out simlint.Out
	var fs *simos.FS
	verifsim.Run(verifsim.Config{Strategy: verifsim.StratFIFO, Procs: 2, StepBound: 5_000_000}, func() {
		fs = s.Disk(nil)
		fs.LogOps = true
		p := s.Start("lint", simlint.Inv{Args: args, Dir: dir}, &out)
		s.Finish(p, &out)
	})
	var ops []simos.OpRec
	for _, r := range fs.Log {
		if r.Proc == 1 {
			ops = append(ops, r)
		}
	}
	var files []simos.Entry
	for _, e := range fs.Walk() {
		if !strings.Contains(e.Path, "/.tmp/") {
			files = append(files, e)
		}
	}
	return ops, files
}

func (e *enumEngine) Total(tier string) int {
	e.build(tier)
	return len(e.cases)
}

func (e *enumEngine) Generate(seed uint64, index int, tier string) json.RawMessage {
	e.build(tier)
	b, _ := json.Marshal(e.cases[index%len(e.cases)])
	return b
}

func (e *enumEngine) Execute(raw json.RawMessage) batch.Result {
	var c Case
	if err := json.Unmarshal(raw, &c); err != nil {
		return batch.Result{Infra: err.Error()}
	}
	r := execute(c, nil)
	r.Trivial = false
	return r
}

func (e *enumEngine) Minimize(raw json.RawMessage, still func(json.RawMessage) bool) json.RawMessage {
	return raw // enumerated cases are minimal by construction
}

func (e *enumEngine) Describe() batch.Description {
	d := engine{}.Describe()
	d.Rule = "enumeration, not sampling: for each of 2 (thorough 4) small modules with facts flowing through imports, a complete linter process (FIFO schedule) is killed before EVERY file-system call it makes and inside every write after k bytes (k in {0,1,len/2,len-1}; thorough adds ~23 more prefixes per write), and every cache file a fault-free run leaves is truncated to {0,1,len/2,len-1} (thorough: ~17 more lengths) or removed; afterwards a linter naming ./... and then a linter naming only the importing package (its dependency analysed for facts only) run on the surviving cache and must print what a run without cache history prints. Each case is distinct by construction."
	return d
}

func main() {
	fam := ""
	var rest []string
	for _, a := range os.Args[1:] {
		if strings.HasPrefix(a, "-family=") {
			fam = a[len("-family="):]
			batch.ExtraWorkerArgs = append(batch.ExtraWorkerArgs, a)
		} else {
			rest = append(rest, a)
		}
	}
	os.Args = append(os.Args[:1], rest...)
	if fam == "enum" {
		batch.Main(&enumEngine{})
		return
	}
	batch.Main(engine{})
}
