// Command simsmoke is a manual smoke test: one generated module, linted in
// the simulator under a few schedules and by the real binary.
package main

import (
	"flag"
	"fmt"
	"os"
	"time"

	"honnef.co/go/tools/internal/verifharness/genmod"
	"honnef.co/go/tools/internal/verifharness/simlint"
	"honnef.co/go/tools/internal/verifhook"
	"honnef.co/go/tools/internal/verifsim"
)

func main() {
	seed := flag.Uint64("seed", 1, "")
	npkg := flag.Int("n", 4, "")
	real := flag.String("real", "", "real binary")
	tests := flag.Bool("tests", false, "")
	flag.Parse()
	r := genmod.Rng(*seed)
	m := genmod.Generate(&r, *npkg, "random", *tests)
	dir, _ := os.MkdirTemp("", "simsmoke")
	defer os.RemoveAll(dir)
	if err := m.Write(dir); err != nil {
		panic(err)
	}
	verifhook.State = m.Digest()
	inv := simlint.Inv{Args: []string{"-f", "json", "-checks", "all", fmt.Sprintf("-tests=%v", *tests), "./..."}, Dir: dir}
	t0 := time.Now()
	ref, fs, vr := simlint.RunOne(verifsim.Config{Seed: 1, Strategy: verifsim.StratFIFO, Procs: 1, MapOrder: true}, nil, inv)
	fmt.Printf("ref: %v steps=%d decisions=%d tasks=%d maxpar=%d exit=%d lines=%d  (%v)\n", vr.Deadlock, vr.Steps, vr.Decisions, vr.Tasks, vr.MaxParallel, ref.Exit, len(ref.Stdout), time.Since(t0))
	if c, d := simlint.Problems(vr); c != "" {
		fmt.Println(c, d)
	}
	fmt.Print(ref.Stdout)
	fmt.Print(ref.Stderr)
	fmt.Println("cache files:", len(fs.Walk()), "fs ops:", fs.Ops)
	for i := 0; i < 6; i++ {
		t0 = time.Now()
		cfg := verifsim.Config{Seed: uint64(i + 10), Strategy: verifsim.Strategy(1 + i%4), StratArg: 3, Procs: []int{1, 2, 3, 4, 8, 16}[i], MapOrder: true, Horizon: 3000}
		out, _, vr := simlint.RunOne(cfg, nil, inv)
		fmt.Printf("run %d: same=%v steps=%d decisions=%d switches=%d maxpar=%d uncanon=%d %v (%v)\n", i, out.Same(ref), vr.Steps, vr.Decisions, vr.Switches, vr.MaxParallel, vr.Uncanonical, vr.Deadlock, time.Since(t0))
		if c, d := simlint.Problems(vr); c != "" {
			fmt.Println(c, d)
		}
		if !out.Same(ref) {
			fmt.Println(simlint.Diff(ref, out))
		}
	}
	// warm run on the reference's disk
	t0 = time.Now()
	out, _, _ := simlint.RunOne(verifsim.Config{Seed: 5, Strategy: verifsim.StratRandom, Procs: 4, MapOrder: true}, fs, inv)
	fmt.Printf("warm: same=%v (%v) fsops=%d\n", out.Same(ref), time.Since(t0), fs.Ops)
	fmt.Printf("graph calls=%d hits=%d\n", verifhook.Calls, verifhook.Hits)
	if *real != "" {
		cd, _ := os.MkdirTemp("", "simsmoke-cache")
		defer os.RemoveAll(cd)
		t0 = time.Now()
		ro, err := simlint.RunReal(*real, cd, inv, 4)
		fmt.Printf("real: err=%v same=%v (%v)\n", err, ro.Same(ref), time.Since(t0))
		if !ro.Same(ref) {
			fmt.Println(simlint.Diff(ref, ro))
			fmt.Println(ro.Stderr)
		}
	}
}
