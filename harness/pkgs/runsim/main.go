// Command runsim is the C06 engine: the complete linter (real runner, real
// analyzers, real post-processing) on seeded multi-package modules under
// seeded schedules, worker counts, map iteration orders, directory orders
// and pattern subsets; every run must print exactly what the reference run
// (FIFO schedule, one worker, canonical map order) prints. See
// /verif/DESIGN.md §7.
package main

import (
	"bytes"
	"encoding/json"
	"fmt"
	"hash/fnv"
	"os"
	"os/exec"
	"path/filepath"
	"sort"
	"strings"

	"honnef.co/go/tools/internal/verifharness/batch"
	"honnef.co/go/tools/internal/verifharness/genmod"
	"honnef.co/go/tools/internal/verifharness/simlint"
	"honnef.co/go/tools/internal/verifhook"
	"honnef.co/go/tools/internal/verifsim"
	"honnef.co/go/tools/internal/verifsim/simos"
)

type Sched struct {
	Seed     uint64   `json:"seed"`
	Strategy int      `json:"strategy"`
	StratArg int      `json:"strat_arg"`
	Procs    int      `json:"procs"`
	Pinned   bool     `json:"pinned,omitempty"`
	Tape     []uint32 `json:"tape,omitempty"`
	Patterns []int    `json:"patterns,omitempty"` // nil: ./... ; else package indices, in this order
	Warm     int      `json:"warm"`               // -1: fresh cache; else reuse the disk left by sched #Warm
	// Fresh: this run happens in an OS process of its own (a child of the
	// worker): the linter is a command and starts every run with untouched
	// package-level state, while the other simulated runs of a case share
	// one OS process, where whatever run came first has filled every
	// process-wide memo of the code under test
	Fresh bool `json:"fresh,omitempty"`
}

type Case struct {
	Tests  bool       `json:"tests,omitempty"` // module has test files: "fresh" caches start from the std base (simlint.StdBase)
	Mod    genmod.Mod `json:"mod"`
	Flags  []string   `json:"flags"` // flags other than -f and patterns
	Env    []string   `json:"env,omitempty"`
	Scheds []Sched    `json:"scheds"`
	// Pre, if set, is a run that names a subset of the packages and happens
	// BEFORE the reference run of ./... (every other subset run comes after
	// it and gets its package graph derived from the memoised full one): the
	// package loader, the configuration lookup and everything else that is
	// per invocation then see the subset first.
	Pre *Sched `json:"pre,omitempty"`
}

func h64(parts ...string) uint64 {
	h := fnv.New64a()
	for _, p := range parts {
		h.Write([]byte(p))
		h.Write([]byte{0})
	}
	return h.Sum64()
}

func modDir(m *genmod.Mod) string {
	return batch.ModDir("runsim", m.Digest())
}

type jsonLine struct {
	Code     string `json:"code"`
	Location struct {
		File string `json:"file"`
	} `json:"location"`
}

// restrict keeps the JSON problem lines located in one of the directories.
func restrict(stdout string, dirs map[string]bool) string {
	var out []string
	for _, l := range strings.Split(stdout, "\n") {
		if l == "" {
			continue
		}
		var jl jsonLine
		if err := json.Unmarshal([]byte(l), &jl); err != nil {
			out = append(out, "UNPARSABLE "+l)
			continue
		}
		if dirs[filepath.Dir(jl.Location.File)] {
			out = append(out, l)
		}
	}
	return strings.Join(out, "\n")
}

func (c *Case) args(dir string, s *Sched) []string {
	a := []string{"-f", "json"}
	a = append(a, c.Flags...)
	if s == nil || s.Patterns == nil {
		return append(a, "./...")
	}
	for _, p := range s.Patterns {
		a = append(a, fmt.Sprintf("./p%d", p))
	}
	return a
}

func simCfg(s *Sched) verifsim.Config {
	cfg := verifsim.Config{Seed: s.Seed, Strategy: verifsim.Strategy(s.Strategy), StratArg: s.StratArg, Procs: s.Procs, MapOrder: true, Horizon: 6000, StepBound: 3_000_000}
	if s.Pinned {
		cfg.Tape = s.Tape
		if cfg.Tape == nil {
			cfg.Tape = []uint32{}
		}
	}
	return cfg
}

type execInfo struct {
	tapes [][]uint32
}

// mode is "" (simulated disk, plain build), "simrace" (race build: simulated
// scheduler with race-invisible gates, real file system) or "freerace" (race
// build: no simulation at all).
var mode string

func firstReport(rep string) string {
	i := strings.Index(rep, "WARNING: DATA RACE")
	if i < 0 {
		return rep
	}
	rep = rep[i:]
	if j := strings.Index(rep, "=================="); j > 0 {
		rep = rep[:j]
	}
	l := strings.Split(rep, "\n")
	if len(l) > 60 {
		l = l[:60]
	}
	return strings.Join(l, "\n")
}

// raceClass names a report by the two innermost frames of the program under
// test (stable across runs; harness frames are skipped).
func raceClass(rep string) string {
	// the first two distinct source locations of the program under test
	// (file:line in the instrumented copy), harness and kernel frames skipped
	var fr []string
	for _, l := range strings.Split(rep, "\n") {
		l = strings.TrimSpace(l)
		if !strings.HasPrefix(l, "honnef.co/go/tools/") || strings.Contains(l, "/internal/verif") || !strings.Contains(l, ".go:") {
			continue
		}
		f := strings.TrimPrefix(l, "honnef.co/go/tools/")
		if k := strings.Index(f, " "); k > 0 {
			f = f[:k]
		}
		dup := false
		for _, x := range fr {
			if x == f {
				dup = true
			}
		}
		if !dup {
			fr = append(fr, f)
		}
		if len(fr) == 2 {
			break
		}
	}
	return "data-race:" + strings.Join(fr, "+")
}

// executeReal ("-family=real"): the real binary (VERIF_REAL_BIN), repeated
// with fresh caches at GOMAXPROCS 1/2/4/16, must print the same bytes every
// time, and the same bytes as the simulator's reference run.
func executeReal(c Case) batch.Result {
	realBin := os.Getenv("VERIF_REAL_BIN")
	if realBin == "" {
		return batch.Result{Infra: "VERIF_REAL_BIN is not set"}
	}
	dir := modDir(&c.Mod)
	defer batch.LockModDir(dir)()
	if err := c.Mod.Write(dir); err != nil {
		return batch.Result{Infra: "writing module: " + err.Error()}
	}
	defer os.RemoveAll(dir)
	verifhook.State = c.Mod.Digest()
	defer verifhook.Forget()
	res := batch.Result{Counters: map[string]int{}}
	inv := simlint.Inv{Args: c.args(dir, nil), Dir: dir, Env: c.Env}
	var fs0 *simos.FS
	if c.Tests {
		var err error
		if fs0, err = simlint.StdBase(batch.Scratch, c.Flags, c.Env); err != nil {
			return batch.Result{Infra: err.Error()}
		}
	}
	ref, _, rvr := simlint.RunOne(verifsim.Config{Strategy: verifsim.StratFIFO, Procs: 1, StepBound: 3_000_000}, fs0, inv)
	if cl, d := simlint.Problems(rvr); cl != "" {
		return batch.Result{Violation: &batch.Violation{Class: cl, Detail: "reference run: " + d}}
	}
	var digests []uint64
	n := 0
	procList := []int{1, 16, 4}
	if batch.Tier == "thorough" {
		procList = []int{1, 2, 4, 16, 3, 8, 16, 1}
	}
	for i, procs := range procList {
		cd, _ := os.MkdirTemp(batch.Scratch, "verif-realcache")
		out, err := simlint.RunReal(realBin, cd, inv, procs)
		os.RemoveAll(cd)
		if err != nil {
			return batch.Result{Infra: "real binary: " + err.Error()}
		}
		n++
		digests = append(digests, h64(fmt.Sprint(i, strings.ReplaceAll(out.Stdout, dir, "$DIR"))))
		res.Counters["real_binary_runs"]++
		if !out.Same(ref) {
			if i == 0 {
				return batch.Result{Infra: fmt.Sprintf("simulator and real binary disagree (the harness misrepresents the code):\n%s\nreal stderr: %s", simlint.Diff(ref, out), out.Stderr)}
			}
			res.Violation = &batch.Violation{Class: "real-binary:output-differs-between-runs", Detail: fmt.Sprintf("run #%d of the REAL binary (GOMAXPROCS=%d) printed something else than run #0 and the simulator's reference:\n%s\nstderr: %s", i, procs, strings.ReplaceAll(simlint.Diff(ref, out), dir, "$DIR"), out.Stderr)}
			break
		}
		res.Counters["sim_vs_real_agreements"]++
	}
	// pattern subsets and orders with the real binary and the real package
	// loader (the simulated runs derive subset graphs from the memoised
	// ./... graph, so anything the loader does per invocation is only
	// exercised here)
	maxSub := 4
	if batch.Tier == "thorough" {
		maxSub = 8
	}
	for i := range c.Scheds {
		s := &c.Scheds[i]
		if s.Patterns == nil || maxSub == 0 || res.Violation != nil {
			continue
		}
		maxSub--
		cd, _ := os.MkdirTemp(batch.Scratch, "verif-realcache")
		sinv := simlint.Inv{Args: c.args(dir, s), Dir: dir, Env: c.Env}
		procs := []int{1, 2, 4, 16}[i%4]
		out, err := simlint.RunReal(realBin, cd, sinv, procs)
		os.RemoveAll(cd)
		if err != nil {
			return batch.Result{Infra: "real binary: " + err.Error()}
		}
		n++
		digests = append(digests, h64(fmt.Sprint("sub", i, strings.ReplaceAll(out.Stdout, dir, "$DIR"))))
		res.Counters["real_binary_runs"]++
		res.Counters["real_binary_pattern_subset_runs"]++
		dirs := map[string]bool{}
		for _, p := range s.Patterns {
			dirs[filepath.Join(dir, fmt.Sprintf("p%d", p))] = true
		}
		want, got := restrict(ref.Stdout, dirs), restrict(out.Stdout, dirs)
		if want != got {
			res.Violation = &batch.Violation{Class: "real-binary:output-depends-on-patterns", Detail: fmt.Sprintf("the REAL binary (GOMAXPROCS=%d) with patterns %v: problems located in the named packages differ from those its ./... run reports for them:\n%s\nstderr: %s", procs, s.Patterns, strings.ReplaceAll(simlint.Diff(simlint.Out{Stdout: want}, simlint.Out{Stdout: got}), dir, "$DIR"), out.Stderr)}
		}
	}
	res.Evals = n
	res.Digests = digests
	for _, d := range digests {
		res.Digest = res.Digest*1099511628211 ^ d
	}
	res.Trivial = ref.Stdout == ""
	res.Sample = map[string]any{"mode": "real", "module": fmt.Sprintf("%d packages", len(c.Mod.Pkgs)), "flags": c.Flags, "real_runs": n}
	return res
}

func executeRace(c Case) batch.Result {
	dir := modDir(&c.Mod)
	defer batch.LockModDir(dir)()
	if err := c.Mod.Write(dir); err != nil {
		return batch.Result{Infra: "writing module: " + err.Error()}
	}
	defer os.RemoveAll(dir)
	verifhook.State = c.Mod.Digest()
	defer verifhook.Forget()
	res := batch.Result{Counters: map[string]int{}}
	fail := func(class, f string, a ...any) {
		if res.Violation == nil {
			res.Violation = &batch.Violation{Class: class, Detail: fmt.Sprintf(f, a...)}
		}
	}
	inv := simlint.Inv{Args: c.args(dir, nil), Dir: dir, Env: c.Env}
	cacheDir := func() string {
		d, _ := os.MkdirTemp(batch.Scratch, "verif-racecache")
		return d
	}
	batch.RaceReports() // drop anything reported before this case
	var ref simlint.Out
	cd := cacheDir()
	if mode == "simrace" {
		var vr verifsim.Result
		ref, vr = simlint.RunOneRealFS(verifsim.Config{Strategy: verifsim.StratFIFO, Procs: 1, RaceGates: true, StepBound: 3_000_000}, cd, inv)
		if cl, d := simlint.Problems(vr); cl != "" {
			fail(cl, "reference run: %s", d)
		}
	} else {
		ref = simlint.RunFree(cd, inv, 1)
	}
	os.RemoveAll(cd)
	if ref.Exit > 1 {
		return batch.Result{Infra: fmt.Sprintf("reference run failed: exit %d: %s", ref.Exit, ref.Stderr)}
	}
	var digests []uint64
	n := 0
	for i := range c.Scheds {
		s := &c.Scheds[i]
		if s.Patterns != nil {
			continue
		}
		if n >= 6 || res.Violation != nil {
			break
		}
		n++
		cd := cacheDir()
		var out simlint.Out
		what := fmt.Sprintf("schedule #%d (strategy %s, %d workers, seed %d)", i, verifsim.Strategy(s.Strategy), s.Procs, s.Seed)
		if mode == "simrace" {
			cfg := simCfg(s)
			cfg.RaceGates = true
			var vr verifsim.Result
			out, vr = simlint.RunOneRealFS(cfg, cd, inv)
			res.Steps += vr.Steps
			res.Decisions += vr.Decisions
			digests = append(digests, vr.Digest^h64(strings.ReplaceAll(out.Stdout, dir, "$DIR")))
			if cl, d := simlint.Problems(vr); cl != "" {
				fail(cl, "%s: %s", what, d)
			}
		} else {
			what = fmt.Sprintf("free run #%d (GOMAXPROCS %d)", i, s.Procs)
			out = simlint.RunFree(cd, inv, s.Procs)
			digests = append(digests, h64(fmt.Sprint(i, s.Procs, strings.ReplaceAll(out.Stdout, dir, "$DIR"))))
		}
		os.RemoveAll(cd)
		res.Counters["procs:"+fmt.Sprint(s.Procs)]++
		if !out.Same(ref) {
			fail("output-differs-from-reference", "%s printed something else than the reference run:\n%s\nstderr: %s", what, strings.ReplaceAll(simlint.Diff(ref, out), dir, "$DIR"), out.Stderr)
		}
		if rep := batch.RaceReports(); rep != "" {
			res.Counters["race_reports"] += strings.Count(rep, "WARNING: DATA RACE")
			fr := firstReport(rep)
			fail(raceClass(fr), "%s: the race detector reported:\n%s", what, fr)
		}
	}
	res.Evals = n + 1
	res.Digests = digests
	for _, d := range digests {
		res.Digest = res.Digest*1099511628211 ^ d
	}
	res.Trivial = ref.Stdout == ""
	res.Sample = map[string]any{"mode": mode, "module": fmt.Sprintf("%d packages", len(c.Mod.Pkgs)), "flags": c.Flags, "runs": n + 1}
	return res
}

func execute(c Case, info *execInfo) batch.Result {
	if mode == "real" {
		return executeReal(c)
	}
	if mode != "" {
		return executeRace(c)
	}
	dir := modDir(&c.Mod)
	defer batch.LockModDir(dir)()
	if err := c.Mod.Write(dir); err != nil {
		return batch.Result{Infra: "writing module: " + err.Error()}
	}
	defer os.RemoveAll(dir)
	verifhook.State = c.Mod.Digest()
	defer verifhook.Forget()
	res := batch.Result{Counters: map[string]int{}}
	fail := func(class, f string, a ...any) {
		if res.Violation == nil {
			res.Violation = &batch.Violation{Class: class, Detail: fmt.Sprintf(f, a...)}
		}
	}
	fresh := func() (*simos.FS, error) {
		if !c.Tests {
			return nil, nil
		}
		return simlint.StdBase(batch.Scratch, c.Flags, c.Env)
	}
	var preOut simlint.Out
	var preDigest uint64
	preOK := false
	if c.Pre != nil && c.Pre.Patterns != nil {
		fsp, err := fresh()
		if err != nil {
			return batch.Result{Infra: err.Error()}
		}
		out, fs2, vr := simlint.RunOne(simCfg(c.Pre), fsp, simlint.Inv{Args: c.args(dir, c.Pre), Dir: dir, Env: c.Env})
		res.Steps += vr.Steps
		res.Decisions += vr.Decisions
		res.Counters["subset_before_reference_runs"]++
		if cl, d := simlint.Problems(vr); cl != "" {
			fail(cl, "subset run before the reference (patterns=%v): %s", c.Pre.Patterns, d)
			return res
		}
		preOut, preOK = out, true
		preDigest = vr.Digest ^ h64(strings.ReplaceAll(out.Stdout, dir, "$DIR")) ^ simlint.DiskDigest(fs2)
	}
	// reference: FIFO, one worker, canonical map order, fresh cache, all packages
	refInv := simlint.Inv{Args: c.args(dir, nil), Dir: dir, Env: c.Env}
	fs0, err := fresh()
	if err != nil {
		return batch.Result{Infra: err.Error()}
	}
	ref, _, rvr := simlint.RunOne(verifsim.Config{Seed: 0, Strategy: verifsim.StratFIFO, Procs: 1, MapOrder: false, StepBound: 3_000_000}, fs0, refInv)
	res.Steps += rvr.Steps
	if cl, d := simlint.Problems(rvr); cl != "" {
		fail(cl, "reference run (FIFO, 1 worker): %s", d)
		return res
	}
	if ref.Exit > 1 || (ref.Exit == 1 && ref.Stdout == "") {
		// the linter itself failed (as opposed to reporting problems)
		return batch.Result{Infra: fmt.Sprintf("reference run failed: exit %d\nstderr: %s", ref.Exit, ref.Stderr)}
	}
	res.Counters["ref_problem_lines"] += strings.Count(ref.Stdout, "\n")
	for _, l := range strings.Split(ref.Stdout, "\n") {
		var jl jsonLine
		if json.Unmarshal([]byte(l), &jl) == nil && jl.Code != "" {
			res.Counters["code:"+jl.Code]++
		}
	}
	digests := []uint64{rvr.Digest ^ h64(strings.ReplaceAll(ref.Stdout, dir, "$DIR"))}
	if preOK {
		digests = append(digests, preDigest)
		dirs := map[string]bool{}
		for _, p := range c.Pre.Patterns {
			dirs[filepath.Join(dir, fmt.Sprintf("p%d", p))] = true
		}
		want, got := restrict(ref.Stdout, dirs), restrict(preOut.Stdout, dirs)
		if want != got {
			fail("output-depends-on-patterns", "a run naming only %v, made before the ./... run in the same process: problems located in the named packages differ from those the ./... run reports for them:\n%s", c.Pre.Patterns, strings.ReplaceAll(simlint.Diff(simlint.Out{Stdout: want}, simlint.Out{Stdout: got}), dir, "$DIR"))
		}
	}
	disks := make([]*simos.FS, len(c.Scheds))
	for i := range c.Scheds {
		s := &c.Scheds[i]
		var fs *simos.FS
		if s.Warm >= 0 && s.Warm < i {
			fs = disks[s.Warm]
			res.Counters["warm_runs"]++
		} else if fs, err = fresh(); err != nil {
			return batch.Result{Infra: err.Error()}
		}
		inv := simlint.Inv{Args: c.args(dir, s), Dir: dir, Env: c.Env}
		if s.Fresh && s.Warm < 0 {
			co, err := runInChild(&c, s, dir)
			if err != nil {
				return batch.Result{Infra: "fresh-process run: " + err.Error()}
			}
			res.Counters["fresh_process_runs"]++
			if info != nil {
				info.tapes = append(info.tapes, co.Tape)
			}
			res.Steps += co.Steps
			digests = append(digests, co.Digest^h64(strings.ReplaceAll(co.Stdout, dir, "$DIR")))
			what := fmt.Sprintf("schedule #%d in an OS process of its own (strategy %s, %d workers, seed %d, patterns=%v)", i, verifsim.Strategy(s.Strategy), s.Procs, s.Seed, s.Patterns)
			if co.Class != "" {
				fail(co.Class, "%s: %s", what, co.Detail)
				continue
			}
			out := simlint.Out{Stdout: co.Stdout, Stderr: co.Stderr, Exit: co.Exit}
			if s.Patterns == nil {
				if !out.Same(ref) {
					fail("output-differs-from-reference", "%s printed something else than the reference run (FIFO, 1 worker):\n%s\nstderr: %s", what, strings.ReplaceAll(simlint.Diff(ref, out), dir, "$DIR"), out.Stderr)
				}
			} else {
				dirs := map[string]bool{}
				for _, p := range s.Patterns {
					dirs[filepath.Join(dir, fmt.Sprintf("p%d", p))] = true
				}
				want, got := restrict(ref.Stdout, dirs), restrict(out.Stdout, dirs)
				if want != got {
					fail("output-depends-on-patterns", "%s: problems located in the named packages differ from those the ./... run reports for them:\n%s", what, strings.ReplaceAll(simlint.Diff(simlint.Out{Stdout: want}, simlint.Out{Stdout: got}), dir, "$DIR"))
				}
			}
			continue
		}
		out, fs2, vr := simlint.RunOne(simCfg(s), fs, inv)
		disks[i] = fs2
		if info != nil {
			info.tapes = append(info.tapes, vr.Tape)
		}
		res.Steps += vr.Steps
		res.Decisions += vr.Decisions
		res.Counters["procs:"+fmt.Sprint(s.Procs)]++
		res.Counters["strategy:"+verifsim.Strategy(s.Strategy).String()]++
		res.Counters["max_parallel_sum"] += vr.MaxParallel
		res.Counters["uncanonical_map_sites"] += vr.Uncanonical
		res.Counters["tasks"] += vr.Tasks
		digests = append(digests, vr.Digest^h64(strings.ReplaceAll(out.Stdout, dir, "$DIR"))^simlint.DiskDigest(fs2))
		what := fmt.Sprintf("schedule #%d (strategy %s, %d workers, seed %d, warm=%d, patterns=%v)", i, verifsim.Strategy(s.Strategy), s.Procs, s.Seed, s.Warm, s.Patterns)
		if cl, d := simlint.Problems(vr); cl != "" {
			fail(cl, "%s: %s", what, d)
			continue
		}
		if s.Patterns == nil {
			if !out.Same(ref) {
				fail("output-differs-from-reference", "%s printed something else than the reference run (FIFO, 1 worker):\n%s\nstderr: %s", what, strings.ReplaceAll(simlint.Diff(ref, out), dir, "$DIR"), out.Stderr)
			}
		} else {
			res.Counters["pattern_subset_runs"]++
			dirs := map[string]bool{}
			for _, p := range s.Patterns {
				dirs[filepath.Join(dir, fmt.Sprintf("p%d", p))] = true
			}
			want, got := restrict(ref.Stdout, dirs), restrict(out.Stdout, dirs)
			if want != got {
				fail("output-depends-on-patterns", "%s: problems located in the named packages differ from those the ./... run reports for them:\n%s", what, strings.ReplaceAll(simlint.Diff(simlint.Out{Stdout: want}, simlint.Out{Stdout: got}), dir, "$DIR"))
			}
		}
	}
	res.Evals = 1 + len(c.Scheds)
	if preOK {
		res.Evals++
	}
	res.Digests = digests
	var all uint64
	for _, d := range digests {
		all = all*1099511628211 ^ d
	}
	res.Digest = all
	res.Trivial = ref.Stdout == ""
	res.Sample = map[string]any{"module": fmt.Sprintf("%d packages, imports %v", len(c.Mod.Pkgs), imports(&c.Mod)), "flags": c.Flags, "schedules": len(c.Scheds), "first_schedule": c.Scheds[0], "ref_problem_lines": strings.Count(ref.Stdout, "\n"), "digest": fmt.Sprintf("%x", all)}
	return res
}

func imports(m *genmod.Mod) [][]int {
	var out [][]int
	for _, p := range m.Pkgs {
		out = append(out, p.Imports)
	}
	return out
}

type engine struct{}

func (engine) Name() string {
	if mode != "" {
		return "runsim-" + mode
	}
	return "runsim"
}
func (engine) Property() string { return "C06" }

var procChoices = []int{1, 2, 3, 4, 8, 16}

func (engine) Generate(seed uint64, index int, tier string) json.RawMessage {
	r := genmod.Rng(seed)
	npkg := 2 + r.N(6)
	// `go list` costs 0.5-1 s per module state under load in this sandbox
	// (process creation is expensive), a simulated run 20-30 ms: many
	// schedules per module.
	nsched := 40
	if tier == "thorough" {
		npkg = 2 + r.N(11)
		nsched = 80
	}
	tests := r.P(300)
	if mode != "" && mode != "real" {
		// race tiers use the real file system and have no std base layer:
		// a module with tests would re-analyse the standard library under the
		// race detector in every run (tens of seconds)
		tests = false
	}
	m := genmod.Generate(&r, npkg, genmod.Shapes[r.N(len(genmod.Shapes))], tests)
	c := Case{Mod: *m, Tests: tests}
	freshCase := r.P(200)
	c.Flags = []string{"-checks", []string{"all", "inherit", "all,-ST1000", "SA*,U1000"}[r.N(4)], fmt.Sprintf("-tests=%v", tests)}
	if r.P(150) {
		c.Flags = append(c.Flags, "-go", []string{"1.21", "1.22", "1.20"}[r.N(3)])
	}
	if r.P(150) {
		c.Flags = append(c.Flags, "-tags", "extra")
	}
	if r.P(80) {
		c.Env = []string{"GOOS=windows"}
	}
	for i := 0; i < nsched; i++ {
		s := Sched{Seed: r.Next(), Strategy: 1 + r.N(4), Procs: procChoices[r.N(len(procChoices))], Warm: -1}
		switch verifsim.Strategy(s.Strategy) {
		case verifsim.StratSwitchP:
			s.StratArg = []int{5, 30, 200}[r.N(3)]
		case verifsim.StratPCT:
			s.StratArg = 1 + r.N(5)
		case verifsim.StratPreempt:
			s.StratArg = r.N(9)
		}
		if r.P(250) {
			// a subset, in seeded order
			n := 1 + r.N(npkg)
			perm := make([]int, npkg)
			for j := range perm {
				perm[j] = j
			}
			for j := npkg - 1; j > 0; j-- {
				k := r.N(j + 1)
				perm[j], perm[k] = perm[k], perm[j]
			}
			s.Patterns = perm[:n]
		}
		if i > 0 && r.P(200) {
			s.Warm = r.N(i)
		}
		c.Scheds = append(c.Scheds, s)
	}
	if mode == "" && freshCase {
		// up to four runs in OS processes of their own (each costs a process
		// start and a `go list`)
		n := 0
		for i := range c.Scheds {
			if c.Scheds[i].Warm < 0 && n < 4 && r.P(300) {
				used := false
				for j := range c.Scheds {
					if c.Scheds[j].Warm == i {
						used = true
					}
				}
				if !used {
					c.Scheds[i].Fresh = true
					n++
				}
			}
		}
	}
	if mode == "" && r.P(300) {
		// one subset run before the reference (costs a `go list` of its own)
		pre := Sched{Seed: r.Next(), Strategy: 1 + r.N(4), Procs: procChoices[r.N(len(procChoices))], Warm: -1}
		n := 1 + r.N(npkg)
		perm := make([]int, npkg)
		for j := range perm {
			perm[j] = j
		}
		for j := npkg - 1; j > 0; j-- {
			k := r.N(j + 1)
			perm[j], perm[k] = perm[k], perm[j]
		}
		pre.Patterns = perm[:n]
		c.Pre = &pre
	}
	b, _ := json.Marshal(c)
	return b
}

func (engine) Execute(raw json.RawMessage) batch.Result {
	var c Case
	if err := json.Unmarshal(raw, &c); err != nil {
		return batch.Result{Infra: err.Error()}
	}
	return execute(c, nil)
}

func (engine) Minimize(raw json.RawMessage, still func(json.RawMessage) bool) json.RawMessage {
	var c Case
	json.Unmarshal(raw, &c)
	enc := func(c Case) json.RawMessage { b, _ := json.Marshal(c); return b }
	// pin all tapes
	var info execInfo
	execute(c, &info)
	if len(info.tapes) == len(c.Scheds) {
		c2 := c
		c2.Scheds = append([]Sched(nil), c.Scheds...)
		for i := range c2.Scheds {
			c2.Scheds[i].Pinned = true
			c2.Scheds[i].Tape = info.tapes[i]
		}
		if still(enc(c2)) {
			c = c2
		}
	}
	// keep as few schedules as possible (warm chains keep their sources)
	keep := batch.DDMin(len(c.Scheds), func(keep []bool) bool {
		c2 := c
		c2.Scheds = nil
		remap := map[int]int{}
		for i, k := range keep {
			if k {
				s := c.Scheds[i]
				if s.Warm >= 0 {
					w, ok := remap[s.Warm]
					if !ok {
						return false
					}
					s.Warm = w
				}
				remap[i] = len(c2.Scheds)
				c2.Scheds = append(c2.Scheds, s)
			}
		}
		if len(c2.Scheds) == 0 {
			return false
		}
		return still(enc(c2))
	})
	{
		var ns []Sched
		remap := map[int]int{}
		for i, k := range keep {
			if k {
				s := c.Scheds[i]
				if s.Warm >= 0 {
					s.Warm = remap[s.Warm]
				}
				remap[i] = len(ns)
				ns = append(ns, s)
			}
		}
		c.Scheds = ns
	}
	// drop trailing packages nobody needs
	for len(c.Mod.Pkgs) > 1 {
		c2 := c
		c2.Mod = *c.Mod.Clone()
		last := len(c2.Mod.Pkgs) - 1
		c2.Mod.Pkgs = c2.Mod.Pkgs[:last]
		ok := true
		c2.Scheds = append([]Sched(nil), c.Scheds...)
		for i := range c2.Scheds {
			for _, p := range c2.Scheds[i].Patterns {
				if p == last {
					ok = false
				}
			}
		}
		if !ok || !still(enc(c2)) {
			break
		}
		c = c2
	}
	// switch features off
	type atom struct {
		pkg int
		f   string
	}
	var atoms []atom
	for i := range c.Mod.Pkgs {
		for _, f := range []string{"depfunc", "depmethod", "pure", "nonnil", "local", "ignore", "initialism", "rangeint", "ignoreu", "twofiles", "generic", "ifaceuse", "common", "test", "xtest", "tagfile", "osfiles", "conf"} {
			atoms = append(atoms, atom{i, f})
		}
	}
	atoms = append(atoms, atom{-1, "rootconf"})
	apply := func(keepA []bool) Case {
		c2 := c
		c2.Mod = *c.Mod.Clone()
		for i, a := range atoms {
			if keepA[i] {
				continue
			}
			if a.pkg < 0 {
				c2.Mod.RootConf = ""
				continue
			}
			p := &c2.Mod.Pkgs[a.pkg]
			switch a.f {
			case "depfunc":
				p.DepFunc = 0
			case "depmethod":
				p.DepMethod = 0
			case "pure":
				p.Pure = false
			case "nonnil":
				p.NonNil = false
			case "local":
				p.Local = 0
			case "ignore":
				p.Ignore = 0
			case "initialism":
				p.Initialism = false
			case "rangeint":
				p.RangeInt = false
			case "ignoreu":
				p.IgnoreU = false
			case "twofiles":
				p.TwoFiles = false
			case "generic":
				// importers refer to it: keep if anyone imports this package
				used := false
				for _, q := range c2.Mod.Pkgs {
					for _, d := range q.Imports {
						if d == a.pkg {
							used = true
						}
					}
				}
				if !used {
					p.Generic = false
				}
			case "ifaceuse":
				p.IfaceUse = false
			case "common":
				p.Common = 0
			case "test":
				p.Test = false
			case "xtest":
				p.XTest = false
			case "tagfile":
				p.TagFile = false
			case "osfiles":
				p.OSFiles = false
			case "conf":
				p.Conf = ""
			}
		}
		return c2
	}
	keepA := batch.DDMin(len(atoms), func(k []bool) bool { return still(enc(apply(k))) })
	c = apply(keepA)
	// schedule
	for i := range c.Scheds {
		if c.Scheds[i].Pinned && len(c.Scheds[i].Tape) > 0 {
			c.Scheds[i].Tape = batch.MinimizeTape(c.Scheds[i].Tape, func(t []uint32) bool {
				c2 := c
				c2.Scheds = append([]Sched(nil), c.Scheds...)
				c2.Scheds[i].Tape = t
				return still(enc(c2))
			})
		}
	}
	return enc(c)
}

func (engine) Describe() batch.Description {
	strs := []string{}
	for i := 1; i < 5; i++ {
		strs = append(strs, verifsim.Strategy(i).String())
	}
	sort.Strings(strs)
	return batch.Description{
		Rule: "each case: one seeded module (2-7 packages, thorough 2-12; chain/diamond/fan/two-component/random import graphs; facts flowing through dependencies (deprecation, purity, nilness), directives, configuration files, optional test variants, build tags, GOOS) linted once under the reference conditions (FIFO schedule, 1 worker, canonical map order, fresh cache) and then under 40 (thorough 80) seeded (schedule strategy in {" + strings.Join(strs, ",") + "}, worker count in {1,2,3,4,8,16}, map iteration order, directory order) combinations, a quarter of them with a seeded subset and order of package patterns (in 30% of the cases one more subset run happens BEFORE the reference run, with a package graph loaded for the subset alone; in 20% of the cases up to four of the runs happen in OS processes of their own, i.e. with untouched package-level state of the code under test), a fifth on a cache warmed by an earlier run of the same case; an evaluation is one simulated linter run; distinct = distinct (kernel event digest, output) pairs; non-trivial = the module has at least one problem.",
		Assumptions: []string{
			"`go list -export` and the compiler are outside the simulator, run once per module state (memoised) and trusted to be deterministic",
			"map iteration order is controlled in lintcmd, lintcmd/runner, go/ir and unused; inside other analyzers it is the runtime's (a difference it causes is still detected, but replays only statistically)",
			"the in-package entry point VerifLint reproduces Command.lint for a plain invocation; its equivalence with the real binary is cross-checked by the real-binary tier",
		},
		RealVsStub: map[string]string{"lintcmd/runner": "real (instrumented)", "lintcmd (lint, filterIgnored, mergeRuns, printDiagnostics, json formatter)": "real (instrumented)", "analyzers (simple, staticcheck, stylecheck, unused)": "real", "go/ir": "real (instrumented)", "go/loader.Load": "real", "go list / compiler": "real subprocess, memoised per module state", "lintcmd/cache": "real (instrumented) on simos", "scheduler, GOMAXPROCS, map order": "simulated"},
		FaultKinds: []string{"schedule", "worker count", "map iteration order", "directory order", "pattern subset/order", "warm cache"},
	}
}

// childOut is what a fresh-process run reports to its parent.
type childOut struct {
	Stdout, Stderr string
	Exit           int
	Digest         uint64
	Steps          int
	Tape           []uint32
	Class, Detail  string
}

type childIn struct {
	Case    Case
	Dir     string
	Scratch string
	Tier    string
}

// runInChild executes one schedule of a case in a child OS process (this
// binary again, with VERIF_CHILD_CASE set). The parent has written the module
// and holds its lock.
func runInChild(c *Case, s *Sched, dir string) (childOut, error) {
	var co childOut
	self, err := os.Executable()
	if err != nil {
		return co, err
	}
	c2 := *c
	c2.Pre = nil
	s2 := *s
	s2.Fresh = false
	c2.Scheds = []Sched{s2}
	b, _ := json.Marshal(childIn{Case: c2, Dir: dir, Scratch: batch.Scratch, Tier: batch.Tier})
	f, err := os.CreateTemp(batch.Scratch, "verif-child-*.json")
	if err != nil {
		return co, err
	}
	defer os.Remove(f.Name())
	f.Write(b)
	f.Close()
	cmd := exec.Command(self)
	cmd.Env = append(os.Environ(), "VERIF_CHILD_CASE="+f.Name())
	var stdout, stderr bytes.Buffer
	cmd.Stdout, cmd.Stderr = &stdout, &stderr
	if err := cmd.Run(); err != nil {
		return co, fmt.Errorf("child: %v\n%s", err, lastBytes(stderr.String(), 3000))
	}
	if err := json.Unmarshal(stdout.Bytes(), &co); err != nil {
		return co, fmt.Errorf("child output: %v\n%s", err, lastBytes(stdout.String()+stderr.String(), 3000))
	}
	return co, nil
}

func lastBytes(s string, n int) string {
	if len(s) > n {
		return s[len(s)-n:]
	}
	return s
}

func childMain(path string) {
	b, err := os.ReadFile(path)
	if err != nil {
		fmt.Fprintln(os.Stderr, err)
		os.Exit(2)
	}
	var in childIn
	if err := json.Unmarshal(b, &in); err != nil {
		fmt.Fprintln(os.Stderr, err)
		os.Exit(2)
	}
	batch.Scratch, batch.Tier = in.Scratch, in.Tier
	c := &in.Case
	s := &c.Scheds[0]
	verifhook.State = c.Mod.Digest()
	var fs *simos.FS
	if c.Tests {
		if fs, err = simlint.StdBase(batch.Scratch, c.Flags, c.Env); err != nil {
			fmt.Fprintln(os.Stderr, err)
			os.Exit(2)
		}
	}
	out, _, vr := simlint.RunOne(simCfg(s), fs, simlint.Inv{Args: c.args(in.Dir, s), Dir: in.Dir, Env: c.Env})
	co := childOut{Stdout: out.Stdout, Stderr: out.Stderr, Exit: out.Exit, Digest: vr.Digest, Steps: vr.Steps, Tape: vr.Tape}
	co.Class, co.Detail = simlint.Problems(vr)
	enc, _ := json.Marshal(co)
	os.Stdout.Write(enc)
	os.Exit(0)
}

func main() {
	if p := os.Getenv("VERIF_CHILD_CASE"); p != "" {
		childMain(p)
	}
	var rest []string
	for _, a := range os.Args[1:] {
		if strings.HasPrefix(a, "-family=") {
			mode = a[len("-family="):]
			batch.ExtraWorkerArgs = append(batch.ExtraWorkerArgs, a)
		} else {
			rest = append(rest, a)
		}
	}
	os.Args = append(os.Args[:1], rest...)
	if mode != "" && mode != "real" {
		batch.WorkerEnv = batch.RaceEnv
	}
	batch.Main(engine{})
}
