// Package batch is the shared driver of the simulation engines: it fans
// seeded cases out over worker OS processes, aggregates what was covered,
// minimises and replays failures, matches them against the committed
// known-findings file and writes the evidence part for one engine.
//
// Exit status of an engine binary: 0 the property held on everything
// explored (known findings are printed as KNOWN-FINDING lines); 1 a
// violation was found (VIOLATION line printed); 2 infrastructure trouble
// (build, watchdog, a failure that does not replay): never a verdict.
package batch

import (
	"bufio"
	"encoding/binary"
	"encoding/json"
	"flag"
	"fmt"
	"os"
	"os/exec"
	"path/filepath"
	"runtime"
	"runtime/debug"
	"runtime/pprof"
	"sort"
	"strings"
	"sync"
	"syscall"
	"time"
)

// Violation is a failed oracle. Class is stable across runs and is what
// minimisation preserves and known findings are matched on; Detail is for
// humans.
type Violation struct {
	Class  string `json:"class"`
	Detail string `json:"detail"`
}

// Result is what executing one case yields.
type Result struct {
	Violation *Violation     `json:"violation,omitempty"`
	Infra     string         `json:"infra,omitempty"` // non-empty: harness trouble, not a verdict
	Digest    uint64         `json:"digest"`          // digest of the execution (event log + observable results)
	Evals     int            `json:"evals,omitempty"` // simulated executions inside this case (0 means 1)
	Digests   []uint64       `json:"-"`               // per-execution digests when Evals > 1
	Trivial   bool           `json:"trivial"`         // nothing interesting happened (engine-defined)
	Steps     int            `json:"steps"`
	Decisions int            `json:"decisions"`
	SimTime   float64        `json:"sim_time_s"` // simulated seconds covered
	Counters  map[string]int `json:"counters,omitempty"`
	Sample    any            `json:"sample,omitempty"` // compact description of the case, for the evidence file
}

// Engine is one simulation engine.
type Engine interface {
	Name() string
	Property() string
	// Generate returns the fully explicit case for (seed, index). Everything
	// random is decided here or recorded in the case by Execute's first run.
	Generate(seed uint64, index int, tier string) json.RawMessage
	// Execute runs one case. It must be a deterministic function of the case.
	Execute(c json.RawMessage) Result
	// Minimize returns a smaller case for which still(c) is true.
	Minimize(c json.RawMessage, still func(json.RawMessage) bool) json.RawMessage
	// Describe returns static facts for the evidence file.
	Describe() Description
}

// Enumerator is implemented by engines that enumerate a finite list of
// cases instead of sampling.
type Enumerator interface {
	Total(tier string) int
}

type Description struct {
	Rule        string            `json:"rule"`
	Assumptions []string          `json:"assumptions"`
	RealVsStub  map[string]string `json:"real_vs_stub"`
	FaultKinds  []string          `json:"fault_kinds"`
}

type knownFinding struct {
	Property    string `json:"property"`
	Status      string `json:"status"` // "open" or "fixed"
	Signature   string `json:"signature"`
	Description string `json:"description"`
	Commit      string `json:"commit,omitempty"`
}

type replayFile struct {
	Property  string          `json:"property"`
	Engine    string          `json:"engine"`
	Seed      uint64          `json:"seed"`
	Index     int             `json:"index"`
	Tier      string          `json:"tier"`
	Violation Violation       `json:"violation"`
	Digest    uint64          `json:"digest"`
	Minimized bool            `json:"minimized"`
	Case      json.RawMessage `json:"case"`
}

type workerMsg struct {
	Type      string          `json:"type"` // "viol", "summary", "infra"
	Index     int             `json:"index,omitempty"`
	Case      json.RawMessage `json:"case,omitempty"`
	Violation *Violation      `json:"violation,omitempty"`
	Digest    uint64          `json:"digest,omitempty"`
	Infra     string          `json:"infra,omitempty"`
	Summary   *summary        `json:"summary,omitempty"`
}

type summary struct {
	Runs       int            `json:"runs"`
	Cases      int            `json:"cases"`
	NonTrivial int            `json:"nontrivial"`
	Steps      int64          `json:"steps"`
	Decisions  int64          `json:"decisions"`
	SimTime    float64        `json:"sim_time_s"`
	Counters   map[string]int `json:"counters"`
	Samples    []any          `json:"samples"`
	DigestFile string         `json:"digest_file"`
}

func mix(seed uint64, i int) uint64 {
	z := seed + uint64(i+1)*0x9E3779B97F4A7C15
	z = (z ^ (z >> 30)) * 0xBF58476D1CE4E5B9
	z = (z ^ (z >> 27)) * 0x94D049BB133111EB
	return z ^ (z >> 31)
}

// Scratch is the scratch directory engines may create files in; Tier the
// tier of this invocation. Both are valid once Main has parsed the flags.
var (
	Scratch string
	Tier    string
)

// ModDir returns the directory a generated module with the given digest is
// written to. It is a function of (TMPDIR, engine, tier, digest) only, never
// of the random scratch directory of a check invocation: absolute file names
// end up in cached results, hence in content hashes, hence in the names and
// the sub-directories of cache files, hence in the order in which Trim
// visits them. A replay in the same sandbox must see the same names.
func ModDir(engine, digest string) string {
	return filepath.Join(os.TempDir(), "verif-mods", engine+"-"+Tier, digest)
}

var raceLogOff int64

// RaceLogBase is the log_path given to the race detector through GORACE by
// RaceEnv; the runtime appends ".<pid>".
func raceLogFile() string {
	for _, kv := range strings.Fields(os.Getenv("GORACE")) {
		if strings.HasPrefix(kv, "log_path=") {
			return fmt.Sprintf("%s.%d", kv[len("log_path="):], os.Getpid())
		}
	}
	return ""
}

// RaceReports returns what the race detector has reported in this process
// since the previous call ("" if nothing, or if not a race build).
func RaceReports() string {
	f := raceLogFile()
	if f == "" {
		return ""
	}
	b, err := os.ReadFile(f)
	if err != nil || int64(len(b)) <= raceLogOff {
		return ""
	}
	out := string(b[raceLogOff:])
	raceLogOff = int64(len(b))
	return out
}

// RaceEnv is a WorkerEnv for race builds: reports go to a per-process file
// and do not stop the process.
func RaceEnv(wid int) []string {
	return []string{"GORACE=halt_on_error=0 exitcode=0 log_path=" + filepath.Join(Scratch, "racelog")}
}

// LockModDir serialises concurrent users of one generated-module directory
// (the same case executed by two processes at once: determinism self-test,
// a mutant run next to a normal run). It returns the unlock function.
func LockModDir(dir string) func() {
	os.MkdirAll(filepath.Dir(dir), 0777)
	f, err := os.OpenFile(dir+".lock", os.O_CREATE|os.O_RDWR, 0666)
	if err != nil {
		return func() {}
	}
	if err := syscall.Flock(int(f.Fd()), syscall.LOCK_EX); err != nil {
		f.Close()
		return func() {}
	}
	return func() {
		syscall.Flock(int(f.Fd()), syscall.LOCK_UN)
		f.Close()
	}
}

// WorkerEnv, if set, returns additional environment variables for worker wid.
var WorkerEnv func(wid int) []string

// ExtraWorkerArgs are passed through to worker and replay subprocesses
// (engine-specific flags that the engine's main strips before Main).
var ExtraWorkerArgs []string

// Main is the entry point of an engine binary.
func Main(e Engine) {
	var (
		tier      = flag.String("tier", envOr("VERIF_TIER", "quick"), "quick or thorough")
		seed      = flag.Uint64("seed", envSeed(), "batch seed (VERIF_SEED)")
		workers   = flag.Int("workers", runtime.NumCPU(), "worker processes")
		budget    = flag.Duration("budget", 60*time.Second, "wall-clock budget for generating cases")
		maxRuns   = flag.Int("runs", 0, "stop after this many cases (0: budget only)")
		partOut   = flag.String("part", "", "write the evidence part here")
		replayDir = flag.String("replaydir", "/verif/replays", "where replay files go")
		known     = flag.String("known", "/verif/known_findings.json", "known findings file")
		replay    = flag.String("replay", "", "replay this file and exit")
		worker    = flag.Bool("worker", false, "internal")
		wid       = flag.Int("wid", 0, "internal")
		scratch   = flag.String("scratch", os.TempDir(), "scratch directory for worker files")
		caseTO    = flag.Duration("case-timeout", 20*time.Minute, "watchdog per case (only harness-level hangs end here: deadlocks and runaway schedules inside a simulation are detected by the kernel; generous because a loaded machine slows a 25-step history with real analyzers down a lot)")
		noMin     = flag.Bool("no-minimize", false, "do not minimise failures")
		dumpDig   = flag.String("dump-digests", "", "worker: append 'index digest' lines to this file (determinism self-test)")
	)
	flag.Parse()
	dumpDigests = *dumpDig
	Scratch = *scratch
	os.MkdirAll(Scratch, 0777)
	Tier = *tier
	if *replay != "" {
		os.Exit(doReplay(e, *replay))
	}
	exhaustive := false
	if en, ok := e.(Enumerator); ok {
		if n := en.Total(*tier); n > 0 {
			*maxRuns = n
			*budget = 24 * time.Hour
			exhaustive = true
		}
	}
	if *worker {
		runWorker(e, *tier, *seed, *wid, *workers, *budget, *maxRuns, *scratch, *caseTO)
		return
	}
	os.Exit(runParent(e, *tier, *seed, *workers, *budget, *maxRuns, *partOut, *replayDir, *known, *scratch, *caseTO, *noMin, exhaustive))
}

func envOr(k, d string) string {
	if v := os.Getenv(k); v != "" {
		return v
	}
	return d
}

func envSeed() uint64 {
	var s uint64 = 1
	if v := os.Getenv("VERIF_SEED"); v != "" {
		fmt.Sscan(v, &s)
	}
	return s
}

// ---------------------------------------------------------------------------
// worker

var dumpDigests string

var watchdogMu sync.Mutex
var watchdogCase string
var watchdogDeadline time.Time

func startWatchdog() {
	go func() {
		for {
			time.Sleep(time.Second)
			watchdogMu.Lock()
			c, d := watchdogCase, watchdogDeadline
			watchdogMu.Unlock()
			if c != "" && time.Now().After(d) {
				fmt.Fprintf(os.Stderr, "WATCHDOG: case %s exceeded its wall-clock limit\n", c)
				buf := make([]byte, 1<<20)
				n := runtime.Stack(buf, true)
				os.Stderr.Write(buf[:n])
				os.Exit(3)
			}
		}
	}()
}

func armWatchdog(name string, d time.Duration) {
	watchdogMu.Lock()
	watchdogCase, watchdogDeadline = name, time.Now().Add(d)
	watchdogMu.Unlock()
}

func runWorker(e Engine, tier string, seed uint64, wid, workers int, budget time.Duration, maxRuns int, scratch string, caseTO time.Duration) {
	// The simulation is sequential (one token). With the default GOMAXPROCS
	// every hand-over wakes another thread; 16 workers x 16 Ps then spend
	// their time in futex calls. Two Ps: one for the token holder, one for
	// the collector. Child processes (go list) are not affected.
	if os.Getenv("VERIF_WORKER_PROCS") == "" {
		runtime.GOMAXPROCS(2)
		os.Setenv("GOMAXPROCS", "4") // for child processes (go list, compile)
	}
	// Page faults are very expensive in this sandbox when many processes
	// fault at once (measured: an allocation-heavy loop is 8x slower with 16
	// copies at GOGC=100 than at GOGC=800, pure computation scales). Let the
	// heap grow and be reused instead of being returned and re-faulted.
	debug.SetGCPercent(400)
	if pf := os.Getenv("VERIF_CPUPROFILE"); pf != "" && wid == 0 {
		if f, err := os.Create(pf); err == nil {
			pprof.StartCPUProfile(f)
			defer pprof.StopCPUProfile()
		}
	}
	out := bufio.NewWriter(os.Stdout)
	enc := json.NewEncoder(out)
	startWatchdog()
	start := time.Now()
	sum := summary{Counters: map[string]int{}}
	digests := map[uint64]bool{}
	for i := wid; ; i += workers {
		if maxRuns > 0 && i >= maxRuns {
			break
		}
		if time.Since(start) > budget {
			break
		}
		fmt.Fprintf(os.Stderr, "START %d\n", i)
		armWatchdog(fmt.Sprint(i), caseTO)
		c := e.Generate(mix(seed, i), i, tier)
		r := e.Execute(c)
		if dumpDigests != "" {
			if f, err := os.OpenFile(dumpDigests, os.O_APPEND|os.O_CREATE|os.O_WRONLY, 0666); err == nil {
				v := ""
				if r.Violation != nil {
					v = r.Violation.Class
				}
				fmt.Fprintf(f, "%d %016x %d %s %s\n", i, r.Digest, r.Steps, v, r.Infra)
				f.Close()
			}
		}
		if r.Infra != "" {
			enc.Encode(workerMsg{Type: "infra", Index: i, Case: c, Infra: r.Infra})
			out.Flush()
			continue
		}
		if r.Evals > 1 {
			sum.Runs += r.Evals
		} else {
			sum.Runs++
		}
		sum.Cases++
		sum.Steps += int64(r.Steps)
		sum.Decisions += int64(r.Decisions)
		sum.SimTime += r.SimTime
		for k, v := range r.Counters {
			sum.Counters[k] += v
		}
		if !r.Trivial {
			sum.NonTrivial++
			if len(r.Digests) > 0 {
				for _, d := range r.Digests {
					digests[d] = true
				}
			} else {
				digests[r.Digest] = true
			}
		}
		if len(sum.Samples) < 2 && r.Sample != nil && !r.Trivial {
			sum.Samples = append(sum.Samples, r.Sample)
		}
		if r.Violation != nil {
			enc.Encode(workerMsg{Type: "viol", Index: i, Case: c, Violation: r.Violation, Digest: r.Digest})
			out.Flush()
		}
	}
	armWatchdog("", 0)
	// distinct digests go through a file: there may be millions
	df := filepath.Join(scratch, fmt.Sprintf("digests-%s-%d-%d.bin", e.Name(), os.Getpid(), wid))
	f, err := os.Create(df)
	if err == nil {
		w := bufio.NewWriter(f)
		var b [8]byte
		for d := range digests {
			binary.LittleEndian.PutUint64(b[:], d)
			w.Write(b[:])
		}
		w.Flush()
		f.Close()
		sum.DigestFile = df
	}
	enc.Encode(workerMsg{Type: "summary", Summary: &sum})
	out.Flush()
}

// ---------------------------------------------------------------------------
// parent

type foundViolation struct {
	index int
	c     json.RawMessage
	v     Violation
	d     uint64
}

func runParent(e Engine, tier string, seed uint64, workers int, budget time.Duration, maxRuns int, partOut, replayDir, knownPath, scratch string, caseTO time.Duration, noMin bool, exhaustive bool) int {
	start := time.Now()
	self, err := os.Executable()
	if err != nil {
		fmt.Fprintln(os.Stderr, "batch:", err)
		return 2
	}
	if maxRuns > 0 && workers > maxRuns {
		workers = maxRuns
	}
	type wres struct {
		msgs   []workerMsg
		err    error
		stderr string
	}
	results := make([]wres, workers)
	var wg sync.WaitGroup
	for w := 0; w < workers; w++ {
		wg.Add(1)
		go func(w int) {
			defer wg.Done()
			cmd := exec.Command(self, append(append([]string(nil), ExtraWorkerArgs...), "-worker", "-wid", fmt.Sprint(w), "-workers", fmt.Sprint(workers), "-tier", tier, "-seed", fmt.Sprint(seed), "-budget", budget.String(), "-runs", fmt.Sprint(maxRuns), "-scratch", scratch, "-case-timeout", caseTO.String())...)
			cmd.Env = os.Environ()
			if WorkerEnv != nil {
				cmd.Env = append(cmd.Env, WorkerEnv(w)...)
			}
			stdout, _ := cmd.StdoutPipe()
			errFile := filepath.Join(scratch, fmt.Sprintf("worker-%s-%d-%d.err", e.Name(), os.Getpid(), w))
			ef, _ := os.Create(errFile)
			cmd.Stderr = ef
			if err := cmd.Start(); err != nil {
				results[w].err = err
				return
			}
			dec := json.NewDecoder(bufio.NewReaderSize(stdout, 1<<20))
			for {
				var m workerMsg
				if err := dec.Decode(&m); err != nil {
					break
				}
				results[w].msgs = append(results[w].msgs, m)
			}
			results[w].err = cmd.Wait()
			ef.Close()
			b, _ := os.ReadFile(errFile)
			results[w].stderr = string(b)
			os.Remove(errFile)
		}(w)
	}
	wg.Wait()

	total := summary{Counters: map[string]int{}}
	digests := map[uint64]bool{}
	var viols []foundViolation
	infra := 0
	for w, r := range results {
		gotSummary := false
		for _, m := range r.msgs {
			switch m.Type {
			case "summary":
				gotSummary = true
				s := m.Summary
				total.Runs += s.Runs
				total.Cases += s.Cases
				total.NonTrivial += s.NonTrivial
				total.Steps += s.Steps
				total.Decisions += s.Decisions
				total.SimTime += s.SimTime
				for k, v := range s.Counters {
					total.Counters[k] += v
				}
				if len(total.Samples) < 4 {
					total.Samples = append(total.Samples, s.Samples...)
				}
				if s.DigestFile != "" {
					b, _ := os.ReadFile(s.DigestFile)
					for i := 0; i+8 <= len(b); i += 8 {
						digests[binary.LittleEndian.Uint64(b[i:])] = true
					}
					os.Remove(s.DigestFile)
				}
			case "viol":
				viols = append(viols, foundViolation{m.Index, m.Case, *m.Violation, m.Digest})
			case "infra":
				infra++
				fmt.Fprintf(os.Stderr, "INFRA %s case %d: %s\n", e.Name(), m.Index, m.Infra)
			}
		}
		if !gotSummary || r.err != nil {
			// The worker died. If the program under test brought the whole OS
			// process down (fatal error, unrecovered panic outside a task),
			// that is a finding about the case it was running, reproduced
			// below by replaying that case alone; anything else is infra.
			last := -1
			for _, line := range strings.Split(r.stderr, "\n") {
				if strings.HasPrefix(line, "START ") {
					fmt.Sscan(line[6:], &last)
				}
			}
			tail := r.stderr
			if len(tail) > 6000 {
				tail = tail[len(tail)-6000:]
			}
			os.MkdirAll(replayDir, 0777)
			full := filepath.Join(replayDir, fmt.Sprintf("worker-death-%s-%d-case%d.log", e.Name(), seed, last))
			os.WriteFile(full, []byte(r.stderr), 0666)
			fmt.Fprintf(os.Stderr, "batch: worker %d of %s died (%v) while running case %d (full stderr: %s); stderr tail:\n%s\n", w, e.Name(), r.err, last, full, tail)
			if last >= 0 && (strings.Contains(r.stderr, "fatal error:") || strings.Contains(r.stderr, "panic:")) && !strings.Contains(r.stderr, "WATCHDOG") {
				c := e.Generate(mix(seed, last), last, tier)
				viols = append(viols, foundViolation{last, c, Violation{Class: "process-fatal", Detail: lastLines(r.stderr, 30)}, 0})
			} else {
				infra++
			}
		}
	}
	sort.Slice(viols, func(i, j int) bool { return viols[i].index < viols[j].index })

	known := loadKnown(knownPath, e.Property())
	exit := 0
	reported := map[string]bool{}
	nViol, nKnown := 0, 0
	var violSummaries []map[string]any
	for _, v := range viols {
		sig := e.Name() + ":" + v.v.Class
		if reported[sig] {
			continue // one report per violation class and batch
		}
		reported[sig] = true
		c := v.c
		minimized := false
		// a listed known finding is reported as found: no minimisation
		isKnown := matchKnown(known, sig, v.v) != nil
		if !noMin && !isKnown && v.v.Class != "process-fatal" {
			deadline := time.Now().Add(2 * time.Minute)
			still := func(cand json.RawMessage) bool {
				if time.Now().After(deadline) {
					return false
				}
				r := e.Execute(cand)
				return r.Violation != nil && r.Violation.Class == v.v.Class
			}
			if still(c) {
				c = e.Minimize(c, still)
				minimized = true
				if r := e.Execute(c); r.Violation != nil {
					v.v = *r.Violation
					v.d = r.Digest
				}
			}
		}
		os.MkdirAll(replayDir, 0777)
		path := filepath.Join(replayDir, fmt.Sprintf("%s-%s-%d-%d.json", e.Property(), e.Name(), seed, v.index))
		rf := replayFile{Property: e.Property(), Engine: e.Name(), Seed: seed, Index: v.index, Tier: tier, Violation: v.v, Digest: v.d, Minimized: minimized, Case: c}
		b, _ := json.MarshalIndent(rf, "", " ")
		os.WriteFile(path, b, 0666)
		// the replay must reproduce in a fresh process
		if v.v.Class != "process-fatal" {
			rc := exec.Command(self, append(append([]string(nil), ExtraWorkerArgs...), "-scratch", scratch, "-replay", path)...)
			rc.Env = os.Environ()
			if WorkerEnv != nil {
				rc.Env = append(rc.Env, WorkerEnv(0)...)
			}
			out, err := rc.CombinedOutput()
			if err == nil || !strings.Contains(string(out), "REPRODUCED") {
				if kf := matchKnown(known, sig, v.v); kf != nil {
					// A listed finding was observed in this run (its class is
					// assigned only on the specific evidence described in the
					// known-findings file); that the recorded case does not
					// re-trigger it in a fresh process is not an alarm.
					fmt.Printf("KNOWN-FINDING: property=%s %s [%s] (observed in case %d of this run; the recorded case did not re-trigger it on replay) replay=%s\n", e.Property(), kf.Description, kf.Signature, v.index, path)
					nKnown++
					continue
				}
				fmt.Fprintf(os.Stderr, "batch: violation %q of case %d did not reproduce on replay in a fresh process: harness nondeterminism\n%s\n", v.v.Class, v.index, out)
				infra++
				continue
			}
		}
		if kf := matchKnown(known, sig, v.v); kf != nil {
			fmt.Printf("KNOWN-FINDING: property=%s %s [%s] replay=%s\n", e.Property(), kf.Description, kf.Signature, path)
			nKnown++
			continue
		}
		fmt.Printf("VIOLATION property=%s replay=%s\n", e.Property(), path)
		fmt.Printf("  engine=%s class=%s\n  %s\n", e.Name(), v.v.Class, strings.ReplaceAll(v.v.Detail, "\n", "\n  "))
		nViol++
		exit = 1
		violSummaries = append(violSummaries, map[string]any{"class": v.v.Class, "replay": path, "index": v.index})
	}
	// Pinned cases of open known findings (known_cases/<engine>/*.json next
	// to the known-findings file): the KNOWN-FINDING line must not depend on
	// the random search happening to hit the finding within the budget. A
	// pinned case that runs clean on this tree is only noted.
	pinned, _ := filepath.Glob(filepath.Join(filepath.Dir(knownPath), "known_cases", e.Name(), "*.json"))
	sort.Strings(pinned)
	for _, pf := range pinned {
		var rf replayFile
		if b, err := os.ReadFile(pf); err != nil || json.Unmarshal(b, &rf) != nil {
			continue
		}
		sig := e.Name() + ":" + rf.Violation.Class
		if reported[sig] || matchKnown(known, sig, rf.Violation) == nil {
			continue
		}
		rc := exec.Command(self, append(append([]string(nil), ExtraWorkerArgs...), "-scratch", scratch, "-replay", pf)...)
		rc.Env = os.Environ()
		if WorkerEnv != nil {
			rc.Env = append(rc.Env, WorkerEnv(0)...)
		}
		out, _ := rc.CombinedOutput()
		_, rest, ok := strings.Cut(string(out), "REPRODUCED: VIOLATION property="+e.Property()+" class="+rf.Violation.Class+"\n")
		if !ok || strings.Contains(string(out), "NOT REPRODUCED") {
			fmt.Fprintf(os.Stderr, "batch: the pinned case %s of known finding %q did not re-trigger it on this tree\n", pf, sig)
			continue
		}
		if kf := matchKnown(known, sig, Violation{Class: rf.Violation.Class, Detail: rest}); kf != nil {
			fmt.Printf("KNOWN-FINDING: property=%s %s [%s] (pinned case) replay=%s\n", e.Property(), kf.Description, kf.Signature, pf)
			nKnown++
			reported[sig] = true
		}
	}
	if infra > 0 && exit == 0 {
		exit = 2
	}

	wall := time.Since(start).Seconds()
	if partOut != "" {
		d := e.Describe()
		part := map[string]any{
			"engine":              e.Name(),
			"property":            e.Property(),
			"tier":                tier,
			"seed":                seed,
			"evaluations":         total.Runs,
			"cases":               total.Cases,
			"distinct_nontrivial": len(digests),
			"nontrivial":          total.NonTrivial,
			"rule":                d.Rule,
			"samples":             total.Samples,
			"steps":               total.Steps,
			"decisions":           total.Decisions,
			"simulated_time_s":    total.SimTime,
			"counters":            total.Counters,
			"runs_per_hour":       float64(total.Runs) / wall * 3600,
			"wall_s":              wall,
			"workers":             workers,
			"violations":          nViol,
			"known_findings":      nKnown,
			"violation_list":      violSummaries,
			"infra_problems":      infra,
			"assumptions":         d.Assumptions,
			"real_vs_stub":        d.RealVsStub,
			"fault_kinds":         d.FaultKinds,
			"exhaustive":          exhaustive && total.Cases == maxRuns,
		}
		b, _ := json.MarshalIndent(part, "", " ")
		if err := os.WriteFile(partOut, b, 0666); err != nil {
			fmt.Fprintln(os.Stderr, "batch:", err)
			return 2
		}
	}
	fmt.Fprintf(os.Stderr, "%s[%s]: %d cases (%d distinct non-trivial executions) in %.1fs, %d violations, %d known findings, %d infra problems\n", e.Name(), tier, total.Runs, len(digests), wall, nViol, nKnown, infra)
	return exit
}

func lastLines(s string, n int) string {
	lines := strings.Split(strings.TrimRight(s, "\n"), "\n")
	if len(lines) > n {
		lines = lines[len(lines)-n:]
	}
	return strings.Join(lines, "\n")
}

func loadKnown(path, property string) []knownFinding {
	b, err := os.ReadFile(path)
	if err != nil {
		return nil
	}
	var all struct {
		Findings []knownFinding `json:"findings"`
	}
	if err := json.Unmarshal(b, &all); err != nil {
		fmt.Fprintf(os.Stderr, "batch: cannot parse %s: %v\n", path, err)
		return nil
	}
	var out []knownFinding
	for _, k := range all.Findings {
		if k.Property == property && k.Status == "open" {
			out = append(out, k)
		}
	}
	return out
}

// matchKnown: a known finding's signature is "<engine>:<class>" optionally
// followed by "|<substring that must occur in the detail>".
func matchKnown(known []knownFinding, sig string, v Violation) *knownFinding {
	for i := range known {
		k := &known[i]
		ks, sub, _ := strings.Cut(k.Signature, "|")
		if ks == sig && (sub == "" || strings.Contains(v.Detail, sub)) {
			return k
		}
	}
	return nil
}

func doReplay(e Engine, path string) int {
	b, err := os.ReadFile(path)
	if err != nil {
		fmt.Fprintln(os.Stderr, err)
		return 2
	}
	var rf replayFile
	if err := json.Unmarshal(b, &rf); err != nil {
		fmt.Fprintln(os.Stderr, err)
		return 2
	}
	if rf.Engine != e.Name() {
		fmt.Fprintf(os.Stderr, "replay file is for engine %s, this is %s\n", rf.Engine, e.Name())
		return 2
	}
	if rf.Tier != "" {
		Tier = rf.Tier // generated directories depend on it
	}
	startWatchdog()
	armWatchdog("replay", 10*time.Minute)
	r := e.Execute(rf.Case)
	if r.Infra != "" {
		fmt.Println("INFRA:", r.Infra)
		return 2
	}
	if r.Violation == nil {
		fmt.Printf("NOT REPRODUCED: the case ran clean (digest %x)\n", r.Digest)
		return 0
	}
	if r.Violation.Class != rf.Violation.Class {
		fmt.Printf("DIFFERENT: class %q instead of %q\n%s\n", r.Violation.Class, rf.Violation.Class, r.Violation.Detail)
		return 1
	}
	if rf.Digest != 0 && r.Digest != rf.Digest {
		fmt.Printf("note: execution digest %x differs from the recorded %x (different scratch directory?)\n", r.Digest, rf.Digest)
	}
	fmt.Printf("REPRODUCED: VIOLATION property=%s class=%s\n%s\n", rf.Property, r.Violation.Class, r.Violation.Detail)
	return 1
}

// DDMin removes elements of a list of n items while test(keep) stays true.
// It returns the final keep mask.
func DDMin(n int, test func(keep []bool) bool) []bool {
	keep := make([]bool, n)
	for i := range keep {
		keep[i] = true
	}
	count := func() int {
		c := 0
		for _, k := range keep {
			if k {
				c++
			}
		}
		return c
	}
	chunk := (count() + 1) / 2
	for chunk >= 1 && count() > 0 {
		removedAny := false
		idx := []int{}
		for i, k := range keep {
			if k {
				idx = append(idx, i)
			}
		}
		for s := 0; s < len(idx); s += chunk {
			e := s + chunk
			if e > len(idx) {
				e = len(idx)
			}
			cand := append([]bool(nil), keep...)
			for _, i := range idx[s:e] {
				cand[i] = false
			}
			if test(cand) {
				keep = cand
				removedAny = true
			}
		}
		if !removedAny {
			if chunk == 1 {
				break
			}
			chunk = (chunk + 1) / 2
			if chunk < 1 {
				chunk = 1
			}
		} else if chunk > count() {
			chunk = (count() + 1) / 2
		}
	}
	return keep
}

// MinimizeTape zeroes and truncates tape entries while test stays true.
func MinimizeTape(tape []uint32, test func([]uint32) bool) []uint32 {
	cur := append([]uint32(nil), tape...)
	// truncate
	for n := len(cur) / 2; n >= 1; n /= 2 {
		for len(cur) >= n {
			cand := cur[:len(cur)-n]
			if test(cand) {
				cur = append([]uint32(nil), cand...)
			} else {
				break
			}
		}
	}
	// zero blocks
	for chunk := (len(cur) + 1) / 2; chunk >= 1; chunk /= 2 {
		for s := 0; s < len(cur); s += chunk {
			e := s + chunk
			if e > len(cur) {
				e = len(cur)
			}
			nz := false
			for _, v := range cur[s:e] {
				if v != 0 {
					nz = true
				}
			}
			if !nz {
				continue
			}
			cand := append([]uint32(nil), cur...)
			for i := s; i < e; i++ {
				cand[i] = 0
			}
			if test(cand) {
				cur = cand
			}
		}
		if chunk == 1 {
			break
		}
	}
	return cur
}
