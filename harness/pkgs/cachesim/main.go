// Command cachesim is the C05 layer-1 engine: the real lintcmd/cache code on
// the simulated disk, driven by k simulated processes per phase, with
// crashes (at fs calls and inside writes), torn writes, between-phase
// truncation and removal of cache files, clock jumps and concurrent
// trimming. See /verif/DESIGN.md §6.1.
package main

import (
	"bytes"
	"crypto/sha256"
	"encoding/json"
	"errors"
	"fmt"
	"io"
	"os"
	"sort"
	"strconv"
	"strings"
	"sync/atomic"
	"syscall"
	"time"

	"honnef.co/go/tools/internal/verifharness/batch"
	"honnef.co/go/tools/internal/verifsim"
	"honnef.co/go/tools/internal/verifsim/simos"
	"honnef.co/go/tools/lintcmd/cache"
)

const root = "/simcache"

type Op struct {
	K  string `json:"k"`
	ID int    `json:"id,omitempty"`
	C  int    `json:"c,omitempty"`
	D  int64  `json:"d,omitempty"` // clock: seconds
}

type Env struct {
	K     string `json:"k"` // "trunc", "remove", "clock"
	File  int    `json:"file,omitempty"`
	Pm    int    `json:"pm,omitempty"`    // trunc: new length = size*pm/1000 - minus
	Minus int    `json:"minus,omitempty"` //
	D     int64  `json:"d,omitempty"`
}

type Phase struct {
	Procs [][]Op `json:"procs"`
	After []Env  `json:"after,omitempty"`
}

type Case struct {
	Seed     uint64           `json:"seed"`
	Strategy int              `json:"strategy"`
	StratArg int              `json:"strat_arg"`
	Horizon  int              `json:"horizon"`
	Pinned   bool             `json:"pinned,omitempty"` // replay Tape (even if empty) instead of generating a schedule
	Tape     []uint32         `json:"tape,omitempty"`
	Contents []int            `json:"contents"` // sizes; bytes are a function of (index, size)
	Phases   []Phase          `json:"phases"`
	Faults   []verifsim.Fault `json:"faults,omitempty"`
	Note     string           `json:"note,omitempty"`
}

type rng uint64

func (r *rng) next() uint64 {
	*r += 0x9E3779B97F4A7C15
	z := uint64(*r)
	z = (z ^ (z >> 30)) * 0xBF58476D1CE4E5B9
	z = (z ^ (z >> 27)) * 0x94D049BB133111EB
	return z ^ (z >> 31)
}
func (r *rng) n(n int) int         { return int(r.next() % uint64(n)) }
func (r *rng) p(permille int) bool { return r.n(1000) < permille }

func content(i, size int) []byte {
	b := make([]byte, size)
	x := uint64(i+1) * 0x9E3779B97F4A7C15
	for j := range b {
		x ^= x << 13
		x ^= x >> 7
		x ^= x << 17
		b[j] = byte(x)
	}
	if size > 0 {
		b[0] = byte('A' + i)
	}
	return b
}

func actionID(i int) cache.ActionID {
	return cache.ActionID(sha256.Sum256([]byte(fmt.Sprintf("action-%d", i))))
}

// ---------------------------------------------------------------------------
// execution

type putRec struct {
	id   int
	c    int // content index
	sum  [32]byte
	size int
	seq  int
}

type runState struct {
	c      Case
	fs     *simos.FS
	seq    int
	puts   []putRec
	viol   *batch.Violation
	cnt    map[string]int
	digest uint64
}

func (st *runState) fail(class, format string, a ...any) {
	if st.viol == nil {
		st.viol = &batch.Violation{Class: class, Detail: fmt.Sprintf(format, a...)}
	}
}

func (st *runState) mixin(vals ...uint64) {
	for _, v := range vals {
		st.digest = (st.digest ^ v) * 0x100000001b3
	}
	verifsim.Event(vals[0], uint64(len(vals)), st.digest)
}

// checkLookup is the oracle of the property: the bytes a lookup yields are
// exactly the bytes some Put under that key was invoked with before the
// lookup returned. (A Put that crashed counts: it may have completed its
// index write.) The entry's metadata is not part of the property: a killed
// in-place rewrite of an index entry can legitimately leave an entry whose
// size field is stale while GetBytes still returns complete, checksummed
// content; that is tallied, not flagged. See DESIGN.md "Corrections".
func (st *runState) checkLookup(how string, proc, id int, data []byte, e cache.Entry) {
	st.seq++
	sum := sha256.Sum256(data)
	for _, p := range st.puts {
		if p.id == id && p.sum == sum && p.size == len(data) {
			st.cnt["hit:"+how]++
			if sum != [32]byte(e.OutputID) || int64(len(data)) != e.Size {
				st.cnt["hit-with-stale-entry-metadata:"+how]++
			}
			st.mixin(uint64(id), uint64(len(data)), 1)
			return
		}
	}
	// Narrow class for the one known defect (known_findings.json): the index
	// entry is torn between two Puts under this id (output id of one, size of
	// the other: a writer died inside the in-place rewrite) AND the data file
	// of the first was cut to exactly that stale size; GetFile, which checks
	// the size only, then serves a prefix.
	if how == "getfile" {
		for _, x := range st.puts {
			if x.id != id || x.sum != [32]byte(e.OutputID) || int64(x.size) == e.Size {
				continue
			}
			for _, y := range st.puts {
				// the stale size: that of the other Put, or - the writer died
				// inside the 20-character size field - the first k characters
				// of the new field followed by the rest of the old one
				if y.id == id && y.size != x.size && tornSize(x.size, y.size, e.Size) && int64(len(data)) == e.Size && len(data) < x.size {
					full := content(x.c, st.c.Contents[x.c%len(st.c.Contents)])
					if bytes.Equal(full[:len(data)], data) {
						st.fail("getfile-serves-prefix-after-torn-entry-and-truncated-data-file", "process %d: GetFile(id %d) returned a file holding the first %d of %d bytes stored by one Put; the index entry carries that Put's output id %x but the size %d, which is the size of another Put under the same id or a mixture of the two 20-character size fields (torn in-place rewrite), and the data file was truncated to exactly that size", proc, id, len(data), x.size, e.OutputID[:6], e.Size)
						return
					}
				}
			}
		}
	}
	st.fail("lookup-wrong-bytes:"+how, "process %d: %s(id %d) yielded %d bytes (sha256 %x; index entry: output %x size %d) that no Put under this id was ever invoked with", proc, how, id, len(data), sum[:6], e.OutputID[:6], e.Size)
}

// tornSize reports whether size is what an index entry's size field reads
// as after an in-place rewrite from oldSize to newSize that was killed after
// k of the field's 20 characters (k = 0: still the old size).
func tornSize(newSize, oldSize int, size int64) bool {
	fn, fo := fmt.Sprintf("%20d", newSize), fmt.Sprintf("%20d", oldSize)
	for k := 0; k < 20; k++ {
		mixed := strings.TrimLeft(fn[:k]+fo[k:], " ")
		if v, err := strconv.ParseInt(mixed, 10, 64); err == nil && v == size {
			return true
		}
	}
	return false
}

func (st *runState) runProc(pi int, ops []Op) {
	c, err := cache.Open(root)
	if err != nil {
		if errors.Is(err, syscall.EIO) {
			st.cnt["open:eio"]++
			return
		}
		st.fail("open-failed", "process %d: cache.Open: %v", pi, err)
		return
	}
	for _, op := range ops {
		if st.viol != nil {
			return
		}
		switch op.K {
		case "put", "putbytes":
			data := content(op.C, st.c.Contents[op.C%len(st.c.Contents)])
			st.seq++
			st.puts = append(st.puts, putRec{id: op.ID, c: op.C, sum: sha256.Sum256(data), size: len(data), seq: st.seq})
			if op.K == "put" {
				out, size, err := c.Put(actionID(op.ID), bytes.NewReader(data))
				if err == nil {
					if [32]byte(out) != sha256.Sum256(data) || size != int64(len(data)) {
						st.fail("put-wrong-result", "process %d: Put(id %d) returned output %x size %d for %d bytes with sha256 %x", pi, op.ID, out[:6], size, len(data), sha256.Sum256(data))
					}
					st.cnt["put:ok"]++
				} else {
					st.cnt["put:err"]++
				}
			} else {
				if err := cache.PutBytes(c, actionID(op.ID), data); err == nil {
					st.cnt["put:ok"]++
				} else {
					st.cnt["put:err"]++
				}
			}
		case "get":
			e, err := c.Get(actionID(op.ID))
			if err != nil {
				st.cnt["miss:get"]++
				continue
			}
			// Get yields metadata only; no bytes, nothing to check (DESIGN.md "Corrections").
			_ = e
			st.cnt["hit:get"]++
		case "getfile":
			file, e, err := cache.GetFile(c, actionID(op.ID))
			if err != nil {
				st.cnt["miss:getfile"]++
				continue
			}
			// The reader opens and reads the file as separate steps, like
			// the runner does.
			f, err := simos.Open(file)
			if err != nil {
				st.cnt["vanished:getfile"]++ // concurrent trim: a miss at this layer
				continue
			}
			var data []byte
			buf := make([]byte, 32*1024)
			var rerr error
			for {
				n, err := f.Read(buf)
				data = append(data, buf[:n]...)
				if err != nil {
					rerr = err
					break
				}
			}
			f.Close()
			if rerr != io.EOF {
				// an injected read error: the reader knows it has not got the content
				st.cnt["readerror:getfile"]++
				continue
			}
			st.checkLookup("getfile", pi, op.ID, data, e)
		case "getbytes":
			data, e, err := cache.GetBytes(c, actionID(op.ID))
			if err != nil {
				st.cnt["miss:getbytes"]++
				continue
			}
			st.checkLookup("getbytes", pi, op.ID, data, e)
		case "trim":
			c.Trim()
			st.cnt["trim"]++
		case "close":
			c.Close()
		case "reopen":
			c, err = cache.Open(root)
			if err != nil {
				if errors.Is(err, syscall.EIO) {
					st.cnt["open:eio"]++
					return
				}
				st.fail("open-failed", "process %d: cache.Open: %v", pi, err)
				return
			}
		case "clock":
			verifsim.Advance(time.Duration(op.D) * time.Second)
		}
	}
}

func (st *runState) cacheFiles() []simos.Entry {
	var out []simos.Entry
	for _, e := range st.fs.Walk() {
		if strings.Contains(e.Path, "/.tmp/") {
			continue
		}
		out = append(out, e)
	}
	return out
}

func execute(c Case, logOps bool) (batch.Result, verifsim.Result, *simos.FS) {
	st := &runState{c: c, cnt: map[string]int{}, digest: 14695981039346656037}
	if c.Pinned && c.Tape == nil {
		c.Tape = []uint32{}
	}
	if !c.Pinned {
		c.Tape = nil
	}
	cfg := verifsim.Config{
		Seed: c.Seed, Tape: c.Tape, Strategy: verifsim.Strategy(c.Strategy), StratArg: c.StratArg, Horizon: c.Horizon,
		Procs: 4, StepBound: 400000, Faults: c.Faults, MapOrder: true,
	}
	simStart := time.Unix(1_700_000_000, 0)
	cfg.Epoch = simStart
	var simEnd time.Time
	vr := verifsim.Run(cfg, func() {
		st.fs = simos.Install(root)
		st.fs.LogOps = logOps
		if err := simos.MkdirAll(root, 0777); err != nil {
			st.fail("harness", "mkdir: %v", err)
			return
		}
		// the directory skeleton exists before any process starts
		if _, err := cache.Open(root); err != nil {
			st.fail("open-failed", "initial cache.Open: %v", err)
			return
		}
		for _, ph := range c.Phases {
			var ps []verifsim.Proc
			for i, ops := range ph.Procs {
				ops := ops
				var p verifsim.Proc
				p = verifsim.Spawn(fmt.Sprintf("p%d", i), func() { st.runProc(int(p), ops) })
				ps = append(ps, p)
			}
			for _, p := range ps {
				verifsim.Join(p)
				if verifsim.Crashed(p) {
					st.cnt["proc:crashed"]++
				}
			}
			for _, ev := range ph.After {
				switch ev.K {
				case "clock":
					verifsim.Advance(time.Duration(ev.D) * time.Second)
				case "trunc", "remove":
					files := st.cacheFiles()
					if len(files) == 0 {
						continue
					}
					f := files[ev.File%len(files)]
					if ev.K == "remove" {
						st.fs.Damage(f.Path, -1)
						st.cnt["damage:remove"]++
					} else {
						n := f.Size*ev.Pm/1000 - ev.Minus
						if n < 0 {
							n = 0
						}
						if n > f.Size {
							n = f.Size
						}
						st.fs.Damage(f.Path, int64(n))
						st.cnt["damage:trunc"]++
					}
				}
			}
		}
		simEnd = verifsim.Now()
	})
	if len(vr.Panics) > 0 {
		p := vr.Panics[0]
		if p.Proc == 0 {
			return batch.Result{Infra: "controller panic: " + p.Value + "\n" + p.Stack}, vr, st.fs
		}
		st.fail("panic", "process %d panicked: %s\n%s", p.Proc, p.Value, firstLines(p.Stack, 24))
	}
	if vr.Deadlock != "" {
		st.fail("deadlock", "%s", vr.Deadlock)
	}
	if vr.StepBound {
		st.fail("step-bound", "run exceeded %d scheduling steps", cfg.StepBound)
	}
	for k, v := range vr.Fired {
		st.cnt["fault:"+k] += v
	}
	if st.fs != nil {
		for k, v := range st.fs.ByOp {
			st.cnt["fsop:"+k] += v
		}
	}
	hits := st.cnt["hit:getfile"] + st.cnt["hit:getbytes"] + st.cnt["hit:get"]
	res := batch.Result{
		Violation: st.viol,
		Digest:    vr.Digest ^ st.digest,
		Trivial:   hits == 0 && st.cnt["put:ok"] == 0,
		Steps:     vr.Steps,
		Decisions: vr.Decisions,
		Counters:  st.cnt,
	}
	if !simEnd.IsZero() {
		res.SimTime = simEnd.Sub(simStart).Seconds()
	}
	res.Sample = map[string]any{"phases": len(c.Phases), "procs_phase0": len(c.Phases[0].Procs), "ops_p0": c.Phases[0].Procs[0], "faults": c.Faults, "strategy": verifsim.Strategy(c.Strategy).String(), "note": c.Note, "hits": hits, "digest": fmt.Sprintf("%x", res.Digest)}
	return res, vr, st.fs
}

func firstLines(s string, n int) string {
	l := strings.Split(s, "\n")
	if len(l) > n {
		l = l[:n]
	}
	return strings.Join(l, "\n")
}

// ---------------------------------------------------------------------------
// engines

var sizes = []int{0, 1, 2, 31, 4096, 32768, 32769, 70000}
var clockJumps = []int64{1, 59 * 60, 61 * 60, 23 * 3600, 25 * 3600, 5 * 86400, 5*86400 + 61*60, 30 * 86400, -2 * 3600}

// randomEngine with ioerr set is the exploratory, never gating family of
// DESIGN.md 6.4: it also injects failing system calls (EIO) and a full disk
// (short write + ENOSPC), which the property's quantifier does not contain;
// what it finds is counted as an observation in the evidence, never reported
// as a violation.
type randomEngine struct{ ioerr bool }

func (e randomEngine) Name() string {
	if e.ioerr {
		return "cachesim-ioerr"
	}
	return "cachesim-random"
}
func (randomEngine) Property() string { return "C05" }

func (e randomEngine) Generate(seed uint64, index int, tier string) json.RawMessage {
	r := rng(seed)
	c := Case{Seed: seed}
	c.Strategy = 1 + r.n(4)
	switch verifsim.Strategy(c.Strategy) {
	case verifsim.StratSwitchP:
		c.StratArg = []int{20, 100, 400}[r.n(3)]
	case verifsim.StratPCT:
		c.StratArg = 1 + r.n(5)
	case verifsim.StratPreempt:
		c.StratArg = r.n(9)
	}
	c.Horizon = 100 + r.n(600)
	nids := 1 + r.n(4)
	ncont := 2 + r.n(4)
	big := r.p(300)
	for i := 0; i < ncont; i++ {
		s := sizes[r.n(len(sizes))]
		if !big && s > 4096 && r.p(700) {
			s = sizes[r.n(5)]
		}
		c.Contents = append(c.Contents, s)
	}
	// swarm: per-case op weights
	kinds := []string{"put", "putbytes", "get", "getfile", "getbytes", "trim", "close", "reopen", "clock"}
	base := []int{30, 10, 8, 22, 15, 7, 3, 2, 4}
	w := make([]int, len(kinds))
	tot := 0
	for i := range kinds {
		w[i] = base[i] * r.n(4) // 0 disables the kind for this case
		if i < 1 && w[i] == 0 {
			w[i] = base[i]
		}
		tot += w[i]
	}
	maxProcs := 3
	maxOps := 8
	if tier == "thorough" {
		maxProcs = 4
		maxOps = 14
	}
	nph := 1 + r.n(3)
	procIndex := 0
	for ph := 0; ph < nph; ph++ {
		var p Phase
		np := 1 + r.n(maxProcs)
		for i := 0; i < np; i++ {
			procIndex++
			nops := 1 + r.n(maxOps)
			var ops []Op
			for j := 0; j < nops; j++ {
				x := r.n(tot)
				k := 0
				for x >= w[k] {
					x -= w[k]
					k++
				}
				op := Op{K: kinds[k], ID: r.n(nids), C: r.n(ncont)}
				if op.K == "clock" {
					op.D = clockJumps[r.n(len(clockJumps))]
				}
				ops = append(ops, op)
			}
			p.Procs = append(p.Procs, ops)
			// faults inside this process
			if r.p(350) {
				f := verifsim.Fault{Proc: procIndex, Op: r.n(6 * nops)}
				nk := 4
				if e.ioerr {
					nk = 8
				}
				switch r.n(nk) {
				case 0:
					f.Kind = "crash"
				case 1, 2:
					f.Kind = "crash_write"
					f.Arg = int64([]int{0, 1, 2, 30, 100, 174, 4095, 20000, 32767}[r.n(9)])
				case 3:
					f.Kind = "torn"
					f.Arg = int64([]int{1, 2, 30, 100, 174, 4095, 20000, 32767}[r.n(8)])
				case 4, 5:
					// the process survives a failed system call
					f.Kind = "eio"
				case 6, 7:
					// disk full: a short write, then an error
					f.Kind = "enospc"
					f.Arg = int64([]int{0, 1, 2, 30, 100, 174, 4095, 20000, 32767}[r.n(9)])
				}
				c.Faults = append(c.Faults, f)
			}
		}
		if ph < nph-1 {
			for k := r.n(4); k > 0; k-- {
				switch r.n(5) {
				case 0, 1:
					p.After = append(p.After, Env{K: "trunc", File: r.n(1000), Pm: []int{0, 1, 500, 990, 1000}[r.n(5)], Minus: r.n(3)})
				case 2:
					p.After = append(p.After, Env{K: "remove", File: r.n(1000)})
				default:
					p.After = append(p.After, Env{K: "clock", D: clockJumps[r.n(len(clockJumps))]})
				}
			}
		}
		c.Phases = append(c.Phases, p)
	}
	b, _ := json.Marshal(c)
	return b
}

func (e randomEngine) Execute(raw json.RawMessage) batch.Result {
	var c Case
	if err := json.Unmarshal(raw, &c); err != nil {
		return batch.Result{Infra: err.Error()}
	}
	r, _, _ := execute(c, false)
	if e.ioerr && r.Violation != nil {
		if r.Counters == nil {
			r.Counters = map[string]int{}
		}
		r.Counters["observation(not gating):"+r.Violation.Class]++
		if ioerrShown.CompareAndSwap(false, true) {
			fmt.Fprintf(os.Stderr, "OBSERVATION (exploratory I/O-error family, outside the property's fault model, not gating): %s: %s\n  case: %s\n", r.Violation.Class, r.Violation.Detail, raw)
		}
		r.Violation = nil
	}
	return r
}

var ioerrShown atomic.Bool

func (randomEngine) Minimize(raw json.RawMessage, still func(json.RawMessage) bool) json.RawMessage {
	return minimize(raw, still)
}

func minimize(raw json.RawMessage, still func(json.RawMessage) bool) json.RawMessage {
	var c Case
	json.Unmarshal(raw, &c)
	enc := func(c Case) json.RawMessage { b, _ := json.Marshal(c); return b }
	// pin the schedule
	if !c.Pinned {
		_, vr, _ := execute(c, false)
		c2 := c
		c2.Tape = vr.Tape
		c2.Pinned = true
		if still(enc(c2)) {
			c = c2
		}
	}
	// faults
	if len(c.Faults) > 0 {
		keep := batch.DDMin(len(c.Faults), func(keep []bool) bool {
			c2 := c
			c2.Faults = nil
			for i, k := range keep {
				if k {
					c2.Faults = append(c2.Faults, c.Faults[i])
				}
			}
			return still(enc(c2))
		})
		var fs []verifsim.Fault
		for i, k := range keep {
			if k {
				fs = append(fs, c.Faults[i])
			}
		}
		c.Faults = fs
	}
	// environment events and ops, flattened
	type ref struct{ ph, proc, op int }
	var refs []ref
	for pi, ph := range c.Phases {
		for qi, ops := range ph.Procs {
			for oi := range ops {
				refs = append(refs, ref{pi, qi, oi})
			}
		}
		for ei := range ph.After {
			refs = append(refs, ref{pi, -1, ei})
		}
	}
	build := func(keep []bool) Case {
		c2 := c
		c2.Phases = nil
		k := 0
		for _, ph := range c.Phases {
			var np Phase
			for _, ops := range ph.Procs {
				var nops []Op
				for _, op := range ops {
					if keep[k] {
						nops = append(nops, op)
					}
					k++
				}
				np.Procs = append(np.Procs, nops) // keep process numbering stable for faults
			}
			for _, ev := range ph.After {
				if keep[k] {
					np.After = append(np.After, ev)
				}
				k++
			}
			c2.Phases = append(c2.Phases, np)
		}
		return c2
	}
	keep := batch.DDMin(len(refs), func(keep []bool) bool { return still(enc(build(keep))) })
	c = build(keep)
	// schedule: zero and shorten the tape
	if len(c.Tape) > 0 {
		c.Tape = batch.MinimizeTape(c.Tape, func(t []uint32) bool {
			c2 := c
			c2.Tape = t
			return still(enc(c2))
		})
	}
	return enc(c)
}

func (e randomEngine) Describe() batch.Description {
	d := e.describe()
	if e.ioerr {
		d.Rule = "EXPLORATORY, NEVER GATING (DESIGN.md 6.4): the random family plus failing system calls (EIO at a seeded fs call; the process survives) and a full disk (short write of k bytes, then ENOSPC). These faults are outside the property's quantifier; anomalies are counted under counters[\"observation(not gating):<class>\"]. Known observation: copyFile's error path truncates the data file to 0; when another process is storing the same content at that moment and then writes its last byte, the file has the right size and wrong (zero) bytes, and GetFile serves it. " + d.Rule
		d.Assumptions = append(d.Assumptions[:2:2], "I/O errors are injected here although the property does not quantify over them; nothing this family sees changes the verdict")
		d.FaultKinds = append([]string{"eio", "enospc(short write)"}, d.FaultKinds...)
	}
	return d
}

func (randomEngine) describe() batch.Description {
	return batch.Description{
		Rule: "each case: 1-3 phases of 1-4 simulated processes, each with its own DiskCache on one simulated directory, running seeded op lists (Put, PutBytes, Get, GetFile+open+read, GetBytes, Trim, Close, reopen, clock jump) over 1-4 action ids and 2-5 contents of sizes {0,1,2,31,4096,32768,32769,70000}; seeded crash/crash-inside-write/torn-write faults inside processes; between phases seeded truncation/removal of cache files and clock jumps; schedule chosen by a seeded strategy at every fs call. Non-trivial: at least one successful Put or lookup hit. Distinct: digest over the kernel event log and all lookup results.",
		Assumptions: []string{
			"process death model: every completed write(2) survives; power loss is represented by the truncate/remove faults only",
			"simos models the Linux semantics of the calls the cache uses (validated against the real os by a differential self-test)",
			"I/O errors (EIO/ENOSPC) are outside the property's quantifier and not injected here",
		},
		RealVsStub: map[string]string{"lintcmd/cache": "real (instrumented)", "internal/renameio": "real (instrumented)", "internal/robustio": "real (instrumented)", "file system": "stub (simos)", "clock": "stub (simulated)", "scheduler": "stub (token scheduler)", "cache clients": "stub (seeded op lists)"},
		FaultKinds: []string{"crash", "crash_write", "torn", "damage(trunc/remove)", "clock", "concurrent trim", "restart"},
	}
}

// ---------------------------------------------------------------------------
// enumeration of crash points and truncation lengths

type enumEngine struct {
	cases []Case
}

func (e *enumEngine) Name() string     { return "cachesim-enum" }
func (e *enumEngine) Property() string { return "C05" }

// scenarios: what the writer does before it is killed, and on what disk.
func enumScenarios(tier string) []Case {
	var out []Case
	szs := []int{0, 1, 2, 31, 4096, 32769}
	if tier == "thorough" {
		szs = sizes
	}
	reader := []Op{{K: "get", ID: 0}, {K: "getfile", ID: 0}, {K: "getbytes", ID: 0}, {K: "put", ID: 0, C: 0}, {K: "getfile", ID: 0}, {K: "getbytes", ID: 0}, {K: "getfile", ID: 1}, {K: "getbytes", ID: 1}}
	for _, sz := range szs {
		// contents 0 and 1 have the same size, content 2 a different one
		other := 4096
		if sz == 4096 {
			other = 31
		}
		cont := []int{sz, sz, other}
		mk := func(note string, pre []Op, w []Op) Case {
			c := Case{Strategy: int(verifsim.StratFIFO), Contents: cont, Note: fmt.Sprintf("size=%d %s", sz, note)}
			if pre != nil {
				c.Phases = append(c.Phases, Phase{Procs: [][]Op{pre}})
			}
			c.Phases = append(c.Phases, Phase{Procs: [][]Op{w}}, Phase{Procs: [][]Op{reader}})
			return c
		}
		out = append(out,
			mk("fresh put", nil, []Op{{K: "put", ID: 0, C: 0}}),
			mk("rewrite same content", []Op{{K: "put", ID: 0, C: 0}}, []Op{{K: "put", ID: 0, C: 0}}),
			mk("overwrite with same-size content", []Op{{K: "put", ID: 0, C: 0}}, []Op{{K: "put", ID: 0, C: 1}}),
			mk("overwrite with other-size content", []Op{{K: "put", ID: 0, C: 0}}, []Op{{K: "put", ID: 0, C: 2}}),
			mk("same content under second id", []Op{{K: "put", ID: 0, C: 0}}, []Op{{K: "put", ID: 1, C: 0}}),
			mk("putbytes", nil, []Op{{K: "putbytes", ID: 0, C: 0}}),
			mk("put then trim", []Op{{K: "put", ID: 0, C: 0}, {K: "clock", D: 6 * 86400}}, []Op{{K: "put", ID: 1, C: 2}, {K: "trim"}}),
		)
	}
	return out
}

func (e *enumEngine) build(tier string) {
	if e.cases != nil {
		return
	}
	for _, base := range enumScenarios(tier) {
		br, _, fs := execute(base, true)
		if br.Violation != nil || br.Infra != "" {
			// the fault-free base run itself fails: keep it as the only case
			e.cases = append(e.cases, base)
			continue
		}
		e.cases = append(e.cases, base)
		wproc := len(base.Phases) - 1 // the writer is the last process before the reader (1-based process index)
		for _, rec := range fs.Log {
			if rec.Proc != wproc {
				continue
			}
			c := base
			c.Faults = []verifsim.Fault{{Kind: "crash", Proc: wproc, Op: rec.Op}}
			c.Note = base.Note + fmt.Sprintf("; crash before %s (op %d)", rec.Kind, rec.Op)
			e.cases = append(e.cases, c)
			if rec.Kind == "write" {
				ks := map[int]bool{0: true, 1: true, rec.Len / 2: true, rec.Len - 1: true, rec.Len: true}
				if tier == "thorough" {
					for k := 0; k <= rec.Len; k += 1 + rec.Len/97 {
						ks[k] = true
					}
					if rec.Len <= 200 {
						for k := 0; k <= rec.Len; k++ {
							ks[k] = true
						}
					}
				}
				var kl []int
				for k := range ks {
					if k >= 0 && k <= rec.Len {
						kl = append(kl, k)
					}
				}
				sort.Ints(kl)
				for _, k := range kl {
					c := base
					c.Faults = []verifsim.Fault{{Kind: "crash_write", Proc: wproc, Op: rec.Op, Arg: int64(k)}}
					c.Note = base.Note + fmt.Sprintf("; crash inside write op %d (%s) after %d of %d bytes", rec.Op, shortPath(rec.Path), k, rec.Len)
					e.cases = append(e.cases, c)
				}
			}
		}
		files := fs.Walk()
		// Pairs of faults: the writer is killed inside the in-place rewrite
		// of an index entry (every byte around the size field, every 8th
		// elsewhere; thorough: every byte) AND a data file is then truncated.
		// A torn entry that still parses, or is "repaired" leniently, must
		// not make a truncated data file look complete.
		if len(base.Phases) == 3 {
			for _, rec := range fs.Log {
				if rec.Proc != wproc || rec.Kind != "write" || !strings.HasSuffix(rec.Path, "-a") {
					continue
				}
				for k := 0; k <= rec.Len; k++ {
					if tier != "thorough" && !(k >= 128 && k <= 158) && k%8 != 0 {
						continue
					}
					for fi, f := range files {
						if !strings.HasSuffix(f.Path, "-d") || f.Size == 0 {
							continue
						}
						for _, l := range []int{0, 1, f.Size / 2, f.Size - 1} {
							if l < 0 || l >= f.Size {
								continue
							}
							c := base
							c.Phases = append([]Phase(nil), base.Phases...)
							c.Faults = []verifsim.Fault{{Kind: "crash_write", Proc: wproc, Op: rec.Op, Arg: int64(k)}}
							ph := c.Phases[len(base.Phases)-2]
							ph.After = []Env{{K: "trunc", File: fi, Pm: 0, Minus: -l}}
							c.Phases[len(base.Phases)-2] = ph
							c.Note = base.Note + fmt.Sprintf("; crash inside index write after %d bytes, then truncate %s to %d of %d", k, shortPath(f.Path), l, f.Size)
							e.cases = append(e.cases, c)
						}
					}
				}
			}
		}
		// truncation and removal of every file the fault-free writer leaves behind
		// fs is the disk at the very end (after the reader); the set of files
		// after the writer phase is the same or smaller: indices beyond it wrap.
		for fi, f := range files {
			lens := map[int]bool{0: true, 1: true, f.Size / 2: true, f.Size - 1: true}
			if tier == "thorough" && f.Size <= 200 {
				for k := 0; k < f.Size; k++ {
					lens[k] = true
				}
			}
			var ll []int
			for k := range lens {
				if k >= 0 && k < f.Size {
					ll = append(ll, k)
				}
			}
			sort.Ints(ll)
			wi := len(base.Phases) - 2
			for _, l := range ll {
				c := base
				c.Phases = append([]Phase(nil), base.Phases...)
				ph := c.Phases[wi]
				ph.After = []Env{{K: "trunc", File: fi, Pm: 0, Minus: -l}}
				c.Phases[wi] = ph
				c.Note = base.Note + fmt.Sprintf("; truncate %s to %d of %d bytes", shortPath(f.Path), l, f.Size)
				e.cases = append(e.cases, c)
			}
			c := base
			c.Phases = append([]Phase(nil), base.Phases...)
			ph := c.Phases[wi]
			ph.After = []Env{{K: "remove", File: fi}}
			c.Phases[wi] = ph
			c.Note = base.Note + fmt.Sprintf("; remove %s", shortPath(f.Path))
			e.cases = append(e.cases, c)
		}
	}
}

func shortPath(p string) string {
	i := strings.LastIndexByte(p, '/')
	b := p[i+1:]
	if len(b) > 14 {
		return b[:8] + "…" + b[len(b)-4:]
	}
	return b
}

func (e *enumEngine) Total(tier string) int {
	e.build(tier)
	return len(e.cases)
}

func (e *enumEngine) Generate(seed uint64, index int, tier string) json.RawMessage {
	e.build(tier)
	c := e.cases[index%len(e.cases)]
	b, _ := json.Marshal(c)
	return b
}

func (e *enumEngine) Execute(raw json.RawMessage) batch.Result {
	var c Case
	if err := json.Unmarshal(raw, &c); err != nil {
		return batch.Result{Infra: err.Error()}
	}
	r, _, _ := execute(c, false)
	r.Trivial = false
	return r
}

func (e *enumEngine) Minimize(raw json.RawMessage, still func(json.RawMessage) bool) json.RawMessage {
	return minimize(raw, still)
}

func (e *enumEngine) Describe() batch.Description {
	d := randomEngine{}.Describe()
	d.Rule = "enumeration, not sampling (single faults, plus pairs 'writer killed inside the index-entry rewrite at byte k' x 'data file truncated'): for each size class and each store scenario (fresh Put, rewrite of the same content, overwrite with same-size / other-size content, same content under a second id, PutBytes, Put+Trim after 6 days) the writer is killed before every file-system call it makes and inside every write after k bytes (k in {0,1,len/2,len-1,len}; thorough: ~100 prefixes per write, all prefixes of index entries), and every file it leaves is truncated to {0,1,len/2,len-1} (thorough: every length of index entries) or removed; a fresh process then looks the ids up with Get, GetFile+read and GetBytes, stores again and looks up again. Each case is distinct by construction (distinct fault or damage)."
	return d
}

func main() {
	fam := "random"
	var rest []string
	for _, a := range os.Args[1:] {
		if strings.HasPrefix(a, "-family=") {
			fam = a[len("-family="):]
			batch.ExtraWorkerArgs = append(batch.ExtraWorkerArgs, a)
		} else {
			rest = append(rest, a)
		}
	}
	os.Args = append(os.Args[:1], rest...)
	_ = io.Discard
	switch fam {
	case "enum":
		batch.Main(&enumEngine{})
	case "ioerr":
		batch.Main(randomEngine{ioerr: true})
	default:
		batch.Main(randomEngine{})
	}
}
