// Package simlint runs the complete linter (real runner, real cache code on
// the simulated disk, real analyzers, real post-processing) as simulated
// processes, and the real binary for cross-checks.
package simlint

import (
	"bytes"
	"fmt"
	"hash/fnv"
	"os"
	"os/exec"
	"runtime"
	"strings"
	"time"

	"golang.org/x/tools/go/analysis"
	"honnef.co/go/tools/analysis/lint"
	"honnef.co/go/tools/internal/verifharness/batch"
	"honnef.co/go/tools/internal/verifhook"
	"honnef.co/go/tools/internal/verifsim"
	"honnef.co/go/tools/internal/verifsim/simos"
	"honnef.co/go/tools/lintcmd"
	"honnef.co/go/tools/lintcmd/runner"
	"honnef.co/go/tools/simple"
	"honnef.co/go/tools/staticcheck"
	"honnef.co/go/tools/stylecheck"
	"honnef.co/go/tools/unused"
)

// CacheRoot is where the simulated cache directory lives.
const CacheRoot = "/simcache"

var analyzers []*lint.Analyzer

// Analyzers returns the analyzer set of cmd/staticcheck.
func Analyzers() []*lint.Analyzer {
	if analyzers == nil {
		analyzers = append(analyzers, simple.Analyzers...)
		analyzers = append(analyzers, staticcheck.Analyzers...)
		analyzers = append(analyzers, stylecheck.Analyzers...)
		analyzers = append(analyzers, unused.Analyzer)
		var as []*analysis.Analyzer
		for _, a := range analyzers {
			as = append(as, a.Analyzer)
		}
		runner.VerifWarmGob(as)
	}
	return analyzers
}

// Inv is one invocation of the linter.
type Inv struct {
	Args []string `json:"args"`
	Dir  string   `json:"dir"`
	Env  []string `json:"env,omitempty"`
}

// Out is what an invocation produced.
type Out struct {
	Stdout  string
	Stderr  string
	Exit    int
	Crashed bool
}

func (o Out) String() string {
	return fmt.Sprintf("exit=%d crashed=%v\n%s", o.Exit, o.Crashed, o.Stdout)
}

// Same reports whether two invocations are observably equal (stdout bytes
// and exit status).
func (o Out) Same(p Out) bool {
	return o.Exit == p.Exit && o.Stdout == p.Stdout && o.Crashed == p.Crashed
}

var salt = []byte("verif-simulated-binary-build-id")

func init() {
	verifhook.BaseEnv = os.Environ()
	Analyzers() // pins gob type ids before anything is encoded (runner.VerifWarmGob)
}

// Session is the body of a simulation: it may attach a disk and run linter
// processes.
type Session struct {
	FS *simos.FS
}

// Disk installs a fresh disk, or attaches fs if it is not nil.
func (s *Session) Disk(fs *simos.FS) *simos.FS {
	if fs == nil {
		s.FS = simos.Install(CacheRoot)
	} else {
		simos.Attach(fs)
		s.FS = fs
	}
	return s.FS
}

// Start spawns one linter process.
func (s *Session) Start(name string, inv Inv, out *Out) verifsim.Proc {
	var p verifsim.Proc
	out.Exit = -1
	p = verifsim.Spawn(name, func() {
		out.Exit = lintcmd.VerifLint(Analyzers(), lintcmd.VerifInvocation{Args: inv.Args, Dir: inv.Dir, CacheDir: CacheRoot, Env: inv.Env, Salt: salt})
	})
	return p
}

// Finish joins a process and collects its output.
func (s *Session) Finish(p verifsim.Proc, out *Out) {
	verifsim.Join(p)
	so, se := verifsim.ProcOutput(p)
	out.Stdout = string(so)
	out.Stderr = string(se)
	out.Crashed = verifsim.Crashed(p)
}

// RunOne runs a single linter process in its own simulation on the given
// disk (nil: fresh) and returns its output, the disk and the kernel result.
func RunOne(cfg verifsim.Config, fs *simos.FS, inv Inv) (Out, *simos.FS, verifsim.Result) {
	var out Out
	var s Session
	vr := verifsim.Run(cfg, func() {
		s.Disk(fs)
		p := s.Start("lint", inv, &out)
		s.Finish(p, &out)
	})
	return out, s.FS, vr
}

// RunOneRealFS runs a single linter process under the simulated scheduler but
// on the real file system (cacheDir is a real directory): the race tiers use
// it, because the simulated disk is ordinary harness memory shared by tasks
// that the race detector must not see, while real file I/O carries exactly
// the happens-before edges the program really has.
func RunOneRealFS(cfg verifsim.Config, cacheDir string, inv Inv) (Out, verifsim.Result) {
	var out Out
	out.Exit = -1
	var p verifsim.Proc
	vr := verifsim.Run(cfg, func() {
		p = verifsim.Spawn("lint", func() {
			out.Exit = lintcmd.VerifLint(Analyzers(), lintcmd.VerifInvocation{Args: inv.Args, Dir: inv.Dir, CacheDir: cacheDir, Env: inv.Env, Salt: salt})
		})
		verifsim.Join(p)
	})
	// read results only after the run: the end of every task is ordered
	// before Run's return
	so, se := verifsim.ProcOutputAfterRun(p)
	out.Stdout, out.Stderr = string(so), string(se)
	return out, vr
}

// RunFree runs one linter invocation without any simulation: real goroutines,
// real scheduler, real file system (free-running race tier).
func RunFree(cacheDir string, inv Inv, procs int) Out {
	var so, se bytes.Buffer
	verifsim.CapturePassthrough(&so, &se)
	defer verifsim.CapturePassthrough(nil, nil)
	old := runtime.GOMAXPROCS(procs)
	defer runtime.GOMAXPROCS(old)
	verifsim.SetPassthroughProcs(procs)
	defer verifsim.SetPassthroughProcs(0)
	var out Out
	out.Exit = lintcmd.VerifLint(Analyzers(), lintcmd.VerifInvocation{Args: inv.Args, Dir: inv.Dir, CacheDir: cacheDir, Env: inv.Env, Salt: salt})
	out.Stdout, out.Stderr = so.String(), se.String()
	return out
}

// RunReal runs the real binary (built without instrumentation from the same
// working tree) in real directories.
func RunReal(bin string, cacheDir string, inv Inv, procs int) (Out, error) {
	cmd := exec.Command(bin, inv.Args...)
	cmd.Dir = inv.Dir
	cmd.Env = append(os.Environ(), "STATICCHECK_CACHE="+cacheDir)
	if procs > 0 {
		cmd.Env = append(cmd.Env, fmt.Sprintf("GOMAXPROCS=%d", procs))
	}
	cmd.Env = append(cmd.Env, inv.Env...)
	var so, se bytes.Buffer
	cmd.Stdout = &so
	cmd.Stderr = &se
	done := make(chan error, 1)
	if err := cmd.Start(); err != nil {
		return Out{}, err
	}
	go func() { done <- cmd.Wait() }()
	select {
	case err := <-done:
		o := Out{Stdout: so.String(), Stderr: se.String()}
		if err != nil {
			if ee, ok := err.(*exec.ExitError); ok {
				o.Exit = ee.ExitCode()
			} else {
				return o, err
			}
		}
		return o, nil
	case <-time.After(5 * time.Minute):
		cmd.Process.Kill()
		return Out{}, fmt.Errorf("real binary timed out")
	}
}

var stdBases = map[string]*simos.FS{}

// StdBase returns a copy of a disk whose cache holds the entries of the
// standard-library closure of a test binary (testing, os, ...), and nothing
// of the module under test: the result of linting a trivial module with one
// test file under the same flags and environment. Used where a "fresh" cache
// is needed many times for modules with tests, so that the standard library
// is not re-analysed in every run (1.5 s instead of 20 ms). The simulation
// clock of the base is the epoch.
func StdBase(scratch string, flags []string, env []string) (*simos.FS, error) {
	key := strings.Join(flags, "\x00") + "\x01" + strings.Join(env, "\x00")
	if b, ok := stdBases[key]; ok {
		return b.Clone(), nil
	}
	// a deterministic directory: absolute paths end up in cached bytes
	hk := fnv.New64a()
	hk.Write([]byte(key))
	dir := batch.ModDir("stdbase", fmt.Sprintf("%016x", hk.Sum64()))
	defer batch.LockModDir(dir)()
	if err := os.MkdirAll(dir, 0777); err != nil {
		return nil, err
	}
	defer os.RemoveAll(dir)
	files := map[string]string{
		"go.mod":      "module example.com/stdbase\n\ngo 1.22\n",
		"b/b.go":      "// Package b is the base.\npackage b\n\n// B is.\nfunc B() int { return 1 }\n",
		"b/b_test.go": "package b\n\n// CheckB is.\nfunc CheckB() int { return B() }\n",
		"b/x_test.go": "package b_test\n\nimport \"example.com/stdbase/b\"\n\n// CheckX is.\nfunc CheckX() int { return b.B() }\n",
	}
	for n, c := range files {
		p := dir + "/" + n
		os.MkdirAll(dir+"/b", 0777)
		if err := os.WriteFile(p, []byte(c), 0666); err != nil {
			return nil, err
		}
	}
	saved := verifhook.State
	verifhook.State = "stdbase:" + key
	args := append([]string{"-f", "json"}, flags...)
	args = append(args, "./...")
	out, fs, vr := RunOne(verifsim.Config{Strategy: verifsim.StratFIFO, Procs: 1, StepBound: 20_000_000}, nil, Inv{Args: args, Dir: dir, Env: env})
	verifhook.State = saved
	if c, d := Problems(vr); c != "" {
		return nil, fmt.Errorf("std base run: %s: %s", c, d)
	}
	if out.Exit > 1 {
		return nil, fmt.Errorf("std base run failed: exit %d: %s", out.Exit, out.Stderr)
	}
	stdBases[key] = fs
	return fs.Clone(), nil
}

// DiskDigest hashes names and contents of all files on the simulated disk.
// Engines mix it into their execution digests: cache file names are content
// hashes, so any nondeterminism in what gets cached (e.g. an uncontrolled map
// iteration whose order ends up in a gob stream) shows up as a digest
// difference in the determinism self-test, even when the printed output is
// the same.
func DiskDigest(fs *simos.FS) uint64 {
	if fs == nil {
		return 0
	}
	h := fnv.New64a()
	for _, e := range fs.Walk() {
		if strings.Contains(e.Path, "/.tmp/") || strings.HasSuffix(e.Path, "-a") || strings.HasSuffix(e.Path, "trim.txt") {
			continue // index entries and trim.txt carry timestamps of the simulated clock; data files are what matters
		}
		b, _ := fs.Peek(e.Path)
		h.Write([]byte(e.Path))
		h.Write(b)
	}
	return h.Sum64()
}

// Problems summarises what a kernel result says about the run itself.
func Problems(vr verifsim.Result) (class, detail string) {
	if len(vr.Panics) > 0 {
		p := vr.Panics[0]
		l := strings.Split(p.Stack, "\n")
		if len(l) > 30 {
			l = l[:30]
		}
		return "panic", fmt.Sprintf("process %d task %d panicked: %s\n%s", p.Proc, p.Task, p.Value, strings.Join(l, "\n"))
	}
	if vr.Deadlock != "" {
		return "deadlock", vr.Deadlock
	}
	if vr.StepBound {
		return "step-bound", "the run exceeded its bound on scheduling steps (livelock?)"
	}
	return "", ""
}

// Diff renders the first differing line of two outputs.
func Diff(a, b Out) string {
	if a.Exit != b.Exit {
		return fmt.Sprintf("exit status %d vs %d", a.Exit, b.Exit)
	}
	al, bl := strings.Split(a.Stdout, "\n"), strings.Split(b.Stdout, "\n")
	for i := 0; i < len(al) || i < len(bl); i++ {
		var x, y string
		if i < len(al) {
			x = al[i]
		}
		if i < len(bl) {
			y = bl[i]
		}
		if x != y {
			return fmt.Sprintf("line %d of %d/%d:\n  - %s\n  + %s", i+1, len(al), len(bl), x, y)
		}
	}
	return "identical"
}
