// Command histsim is the C04 engine: histories of source edits, configuration
// edits, flag and environment changes, reverts and clock jumps, interleaved
// with linter runs that share one cache; after every step the run on the
// shared cache must print exactly what a run on a fresh cache prints for the
// same state. See /verif/DESIGN.md §5.
package main

import (
	"encoding/json"
	"fmt"
	"hash/fnv"
	"os"
	"path/filepath"
	"strings"
	"time"

	"honnef.co/go/tools/internal/verifharness/batch"
	"honnef.co/go/tools/internal/verifharness/genmod"
	"honnef.co/go/tools/internal/verifharness/simlint"
	"honnef.co/go/tools/internal/verifhook"
	"honnef.co/go/tools/internal/verifsim"
	"honnef.co/go/tools/internal/verifsim/simos"
)

// Flags is the part of the state that is not source.
type Flags struct {
	Go       string `json:"go,omitempty"`
	Tags     string `json:"tags,omitempty"`
	Tests    bool   `json:"tests,omitempty"`
	Checks   string `json:"checks,omitempty"`
	GOOS     string `json:"goos,omitempty"`
	Patterns []int  `json:"patterns,omitempty"` // nil: ./...
}

type Step struct {
	Op  string `json:"op"`
	Pkg int    `json:"pkg,omitempty"`
	Arg int    `json:"arg,omitempty"`
	// schedule of the run that follows the edit
	Seed     uint64   `json:"seed"`
	Strategy int      `json:"strategy"`
	Procs    int      `json:"procs"`
	Pinned   bool     `json:"pinned,omitempty"`
	Tape     []uint32 `json:"tape,omitempty"`
}

type Case struct {
	Mod   genmod.Mod `json:"mod"`
	Flags Flags      `json:"flags"`
	Steps []Step     `json:"steps"`
}

var ops = []string{"body", "body_dep", "dep_func", "dep_func_samelen", "dep_method", "dep_method_samelen", "recvmix", "ignore_u1000", "two_files", "iface_use", "generic", "common", "test_body", "pure", "dep_pure", "plain", "extdep", "extdep_fact", "extdep_body", "nonnil", "pad", "local", "ignore", "initialism", "rangeint", "conf_pkg", "conf_root", "conf_outer", "conf_rm", "flag_go", "flag_tags", "flag_tests", "flag_checks", "goos", "patterns", "touch", "revert", "clock", "tagfile", "osfiles", "test_files", "gomod_go", "rerun"}

// configuration files above the module root: mostly options other than
// "checks" (the list of checks is applied after the cache, the other options
// go into the analysis)
var outerConfs = append([]string{
	"initialisms = [\"ACL\"]\n",
	"initialisms = []\n",
	"checks = [\"all\"]\ninitialisms = [\"inherit\", \"GET\"]\n",
	"checks = [\"inherit\", \"ST1003\"]\ninitialisms = [\"GET\", \"URL\"]\n",
	"checks = [\"inherit\", \"ST1003\"]\n",
}, genmod.Confs[:4]...)

// the op alphabet by category of the property's quantifier
var opCats = [][]string{
	{"body", "pad", "local", "ignore", "ignore_u1000", "initialism", "rangeint", "two_files", "iface_use", "generic", "common", "recvmix", "test_body", "test_files", "tagfile", "osfiles", "plain"},
	{"body_dep", "dep_func", "dep_func_samelen", "dep_method", "dep_method_samelen", "pure", "dep_pure", "nonnil", "extdep", "extdep_fact", "extdep_body"},
	{"conf_pkg", "conf_root", "conf_outer", "conf_rm"},
	{"flag_go", "flag_tags", "flag_tests", "flag_checks", "goos", "patterns", "gomod_go"},
	{"revert", "touch", "clock", "rerun"},
}

var goVersions = []string{"", "1.21", "1.22", "1.20", "1.23"}

// the first two are wide; the rest disable or single out checks that the
// generated packages have directives for (the list of checks is applied
// after the cache, so nothing cached may depend on it)
var checkSets = []string{"", "all", "inherit,-SA4018", "SA*,U1000", "all,-U1000", "SA4006", "inherit,-SA4000,-SA4018", "U1000,ST1016", "all,-SA1000,-SA4018,-U1000"}
var clockJumps = []int64{1, 59 * 60, 61 * 60, 23 * 3600, 25 * 3600, 5 * 86400, 5*86400 + 61*60, 6 * 86400, 30 * 86400}

type state struct {
	mod   *genmod.Mod
	flags Flags
}

func (s *state) clone() state {
	f := s.flags
	f.Patterns = append([]int(nil), s.flags.Patterns...)
	if s.flags.Patterns == nil {
		f.Patterns = nil
	}
	return state{mod: s.mod.Clone(), flags: f}
}

func (s *state) key() string {
	b, _ := json.Marshal(s.flags)
	return s.mod.Digest() + "|" + string(b)
}

func (s *state) inv(dir string) simlint.Inv {
	a := []string{"-f", "json"}
	if s.flags.Go != "" {
		a = append(a, "-go", s.flags.Go)
	}
	if s.flags.Tags != "" {
		a = append(a, "-tags", s.flags.Tags)
	}
	a = append(a, fmt.Sprintf("-tests=%v", s.flags.Tests))
	if s.flags.Checks != "" {
		a = append(a, "-checks", s.flags.Checks)
	}
	if s.flags.Patterns == nil {
		a = append(a, "./...")
	} else {
		for _, p := range s.flags.Patterns {
			a = append(a, fmt.Sprintf("./p%d", p))
		}
	}
	inv := simlint.Inv{Args: a, Dir: dir}
	if s.flags.GOOS != "" {
		inv.Env = []string{"GOOS=" + s.flags.GOOS}
	}
	return inv
}

// baseFlags are the flags that select the std base layer.
func (s *state) baseFlags() []string {
	var a []string
	if s.flags.Go != "" {
		a = append(a, "-go", s.flags.Go)
	}
	if s.flags.Tags != "" {
		a = append(a, "-tags", s.flags.Tags)
	}
	a = append(a, "-tests=true")
	return a
}

// apply performs the edit of a step; it returns a clock jump in seconds.
func apply(st *state, step Step, history []state) int64 {
	m := st.mod
	n := len(m.Pkgs)
	p := &m.Pkgs[((step.Pkg%n)+n)%n]
	a := step.Arg
	if a < 0 {
		a = -a
	}
	switch step.Op {
	case "body":
		p.Body++
	case "body_dep":
		// edit a package that others import (package 0 is imported most often)
		m.Pkgs[0].Body++
	case "dep_func":
		p.DepFunc = (p.DepFunc + 1) % 2
	case "dep_func_samelen":
		// "Deprecated:" <-> "Deprecatex:": same length, export data unchanged
		if p.DepFunc == 1 {
			p.DepFunc = 2
		} else {
			p.DepFunc = 1
		}
	case "dep_method":
		p.DepMethod = (p.DepMethod + 1) % 2
	case "dep_method_samelen":
		// same length, export data unchanged; reaches importers of importers through Via()
		if p.DepMethod == 1 {
			p.DepMethod = 2
		} else {
			p.DepMethod = 1
		}
	case "recvmix":
		p.RecvMix = !p.RecvMix
	case "ignore_u1000":
		p.IgnoreU = !p.IgnoreU
	case "two_files":
		p.TwoFiles = !p.TwoFiles
	case "common":
		p.Common = (p.Common + 1 + a%2) % 3
	case "test_body":
		// an edit that touches only a file of the test variant
		p.TestBody++
		if !p.Test {
			p.Test = true
		}
	case "iface_use":
		p.IfaceUse = !p.IfaceUse
	case "generic":
		// toggling is only safe for packages nobody imports (importers instantiate the helpers)
		used := false
		for _, q := range m.Pkgs {
			for _, d := range q.Imports {
				if d == ((step.Pkg%n)+n)%n {
					used = true
				}
			}
		}
		if !used {
			p.Generic = !p.Generic
		}
	case "pure":
		p.Pure = !p.Pure
	case "dep_pure":
		p.DepPure = !p.DepPure
	case "extdep":
		// a dependency from another, directory-replaced module comes or goes
		if m.ExtDep == 0 {
			m.ExtDep = 1 + a%2
		} else {
			m.ExtDep = 0
		}
	case "extdep_fact":
		// its deprecation fact flips (same length)
		switch m.ExtDep {
		case 0:
			m.ExtDep = 1
		case 1:
			m.ExtDep = 2
		default:
			m.ExtDep = 1
		}
	case "extdep_body":
		if m.ExtDep == 0 {
			m.ExtDep = 2
		}
		m.ExtBody++
	case "plain":
		// the package loses or regains everything that earns it facts
		p.Plain = !p.Plain
	case "nonnil":
		p.NonNil = !p.NonNil
	case "pad":
		p.Pad = (p.Pad + 1 + a%3) % 5
	case "local":
		p.Local = (p.Local + 1 + a) % 32
	case "ignore":
		p.Ignore = (p.Ignore + 1 + a%3) % 4
	case "initialism":
		p.Initialism = !p.Initialism
	case "rangeint":
		p.RangeInt = !p.RangeInt
	case "conf_pkg":
		p.Conf = genmod.Confs[a%len(genmod.Confs)]
	case "conf_root":
		m.RootConf = genmod.Confs[a%len(genmod.Confs)]
	case "conf_outer":
		// a configuration file above the module root
		if m.OuterConf != "" && a%4 == 0 {
			m.OuterConf = ""
		} else {
			m.OuterConf = outerConfs[a%len(outerConfs)]
		}
	case "conf_rm":
		if a%2 == 0 {
			p.Conf = ""
		} else {
			m.RootConf = ""
		}
	case "flag_go":
		st.flags.Go = goVersions[a%len(goVersions)]
	case "flag_tags":
		if st.flags.Tags == "" {
			st.flags.Tags = "extra"
		} else {
			st.flags.Tags = ""
		}
	case "flag_tests":
		st.flags.Tests = !st.flags.Tests
	case "flag_checks":
		st.flags.Checks = checkSets[a%len(checkSets)]
	case "goos":
		if st.flags.GOOS == "" {
			st.flags.GOOS = "windows"
		} else {
			st.flags.GOOS = ""
		}
	case "patterns":
		if st.flags.Patterns != nil && a%2 == 0 {
			st.flags.Patterns = nil
		} else {
			k := 1 + a%n
			st.flags.Patterns = nil
			for i := 0; i < k; i++ {
				st.flags.Patterns = append(st.flags.Patterns, (step.Pkg+i*(1+a%2))%n)
			}
		}
	case "tagfile":
		p.TagFile = !p.TagFile
	case "osfiles":
		p.OSFiles = !p.OSFiles
	case "test_files":
		p.Test = !p.Test
		if a%2 == 1 {
			p.XTest = !p.XTest
		}
	case "gomod_go":
		m.Go = []string{"1.21", "1.22", "1.23"}[a%3]
	case "revert":
		if len(history) > 0 {
			*st = history[a%len(history)].clone()
		}
	case "clock":
		return clockJumps[a%len(clockJumps)]
	case "touch", "rerun":
	}
	return 0
}

func h64(s string) uint64 {
	h := fnv.New64a()
	h.Write([]byte(s))
	return h.Sum64()
}

func caseDir(c *Case) string {
	return batch.ModDir("histsim", c.Mod.Digest()+fmt.Sprintf("-%x", h64(fmt.Sprint(c.Steps))&0xffffff))
}

type tapeRec struct{ tapes [][]uint32 }

// realMode ("-family=real"): every step is also executed by the real binary
// (built without instrumentation from the same working tree, path in
// VERIF_REAL_BIN) in real directories: once on a persistent real
// STATICCHECK_CACHE and once on a fresh one. The property is asserted on the
// real binary, and the simulator's reference output must equal the real
// fresh-cache output (otherwise the harness misrepresents the code: infra).
var realMode bool

// shiftMTimes moves the modification time of every file below dir into the
// past: the real binary's view of a clock jump.
func shiftMTimes(dir string, d time.Duration) {
	filepath.Walk(dir, func(path string, info os.FileInfo, err error) error {
		if err == nil && !info.IsDir() {
			t := info.ModTime().Add(-d)
			os.Chtimes(path, t, t)
		}
		return nil
	})
}

func execute(c Case, rec *tapeRec) batch.Result {
	// the module lives one level below the case directory, so that the case
	// owns the directory above the module root ("conf_outer")
	outer := caseDir(&c)
	defer batch.LockModDir(outer)()
	defer os.RemoveAll(outer)
	dir := filepath.Join(outer, "m")
	defer verifhook.Forget()
	res := batch.Result{Counters: map[string]int{}}
	st := state{mod: c.Mod.Clone(), flags: c.Flags}
	var history []state
	refs := map[string]simlint.Out{}
	var disk *simos.FS
	epoch := time.Unix(1_700_000_000, 0)
	now := epoch
	var digests []uint64
	fail := func(class, f string, a ...any) {
		if res.Violation == nil {
			res.Violation = &batch.Violation{Class: class, Detail: fmt.Sprintf(f, a...)}
		}
	}
	fresh := func(s *state) (*simos.FS, error) {
		if !s.flags.Tests {
			return nil, nil
		}
		return simlint.StdBase(batch.Scratch, s.baseFlags(), s.inv(dir).Env)
	}
	var realCache string
	realBin := os.Getenv("VERIF_REAL_BIN")
	if realMode {
		if realBin == "" {
			return batch.Result{Infra: "VERIF_REAL_BIN is not set"}
		}
		realCache, _ = os.MkdirTemp(batch.Scratch, "verif-realcache")
		defer os.RemoveAll(realCache)
	}
	steps := append([]Step{{Op: "rerun", Seed: 1, Strategy: int(verifsim.StratFIFO), Procs: 4}}, c.Steps...)
	if realMode && batch.Tier != "thorough" && len(steps) > 5 {
		steps = steps[:5] // real runs cost seconds each in this sandbox
	}
	for si, step := range steps {
		jump := apply(&st, step, history)
		history = append(history, st.clone())
		now = now.Add(time.Duration(jump) * time.Second)
		if err := st.mod.Write(dir); err != nil {
			return batch.Result{Infra: err.Error()}
		}
		if st.mod.OuterConf == "" {
			os.Remove(filepath.Join(outer, "staticcheck.conf"))
		}
		if st.mod.ExtDep == 0 {
			os.RemoveAll(filepath.Join(outer, "extdep"))
		}
		if step.Op == "touch" {
			t := time.Now()
			os.Chtimes(filepath.Join(dir, fmt.Sprintf("p%d/p%d.go", step.Pkg%len(st.mod.Pkgs), step.Pkg%len(st.mod.Pkgs))), t, t)
		}
		verifhook.State = st.mod.Digest()
		inv := st.inv(dir)
		what := fmt.Sprintf("step %d (%s pkg=%d arg=%d; flags %+v)", si, step.Op, step.Pkg, step.Arg, st.flags)

		// reference: fresh cache, memoised per state
		key := st.key()
		ref, ok := refs[key]
		if !ok {
			fs0, err := fresh(&st)
			if err != nil {
				return batch.Result{Infra: err.Error()}
			}
			var vr verifsim.Result
			ref, _, vr = simlint.RunOne(verifsim.Config{Strategy: verifsim.StratFIFO, Procs: 1, StepBound: 5_000_000, Epoch: now}, fs0, inv)
			res.Steps += vr.Steps
			if cl, d := simlint.Problems(vr); cl != "" {
				fail(cl, "%s: reference run on a fresh cache: %s", what, d)
				break
			}
			if ref.Exit > 1 {
				return batch.Result{Infra: fmt.Sprintf("%s: reference run failed: exit %d: %s", what, ref.Exit, ref.Stderr)}
			}
			refs[key] = ref
			res.Counters["reference_runs"]++
		} else {
			res.Counters["state_revisits"]++
		}

		// the run under test: shared cache
		if disk == nil {
			var err error
			if disk, err = fresh(&st); err != nil {
				return batch.Result{Infra: err.Error()}
			}
		}
		cfg := verifsim.Config{Seed: step.Seed, Strategy: verifsim.Strategy(step.Strategy), Procs: step.Procs, MapOrder: true, Horizon: 4000, StepBound: 5_000_000, Epoch: now}
		if step.Pinned {
			cfg.Tape = step.Tape
			if cfg.Tape == nil {
				cfg.Tape = []uint32{}
			}
		}
		before := 0
		if disk != nil {
			before = len(disk.Walk())
		}
		out, d2, vr := simlint.RunOne(cfg, disk, inv)
		disk = d2
		if rec != nil {
			rec.tapes = append(rec.tapes, vr.Tape)
		}
		res.Steps += vr.Steps
		res.Decisions += vr.Decisions
		res.Counters["op:"+step.Op]++
		res.Counters["runs_on_shared_cache"]++
		after := len(disk.Walk())
		if after < before {
			res.Counters["runs_after_which_trim_expired_entries"]++
		}
		digests = append(digests, vr.Digest^h64(strings.ReplaceAll(out.Stdout, dir, "$DIR"))^simlint.DiskDigest(disk))
		if cl, d := simlint.Problems(vr); cl != "" {
			fail(cl, "%s: %s", what, d)
			break
		}
		if !out.Same(ref) {
			// Is the reference itself stable? If not, this is C06's finding.
			fs0, _ := fresh(&st)
			ref2, _, _ := simlint.RunOne(verifsim.Config{Seed: step.Seed ^ 0x55, Strategy: verifsim.StratRandom, Procs: 3, MapOrder: true, StepBound: 5_000_000, Epoch: now}, fs0, inv)
			if !ref2.Same(ref) {
				return batch.Result{Infra: fmt.Sprintf("%s: two fresh-cache runs of the same state differ (determinism, decided under C06): %s", what, simlint.Diff(ref, ref2))}
			}
			fail("warm-cache-output-differs-from-fresh-cache", "%s: the run on the shared cache printed something else than a run on a fresh cache:\n%s\n(- fresh cache, + shared cache)\nstderr: %s", what, strings.ReplaceAll(simlint.Diff(ref, out), dir, "$DIR"), out.Stderr)
			break
		}
		if ref.Stdout != "" {
			res.Counters["steps_with_problems"]++
		}
		if realMode {
			if jump > 0 {
				shiftMTimes(realCache, time.Duration(jump)*time.Second)
			}
			freshDir, _ := os.MkdirTemp(batch.Scratch, "verif-realfresh")
			realFresh, err1 := simlint.RunReal(realBin, freshDir, inv, step.Procs)
			os.RemoveAll(freshDir)
			realWarm, err2 := simlint.RunReal(realBin, realCache, inv, step.Procs)
			if err1 != nil || err2 != nil {
				return batch.Result{Infra: fmt.Sprintf("real binary: %v %v", err1, err2)}
			}
			res.Counters["real_binary_runs"] += 2
			if !realWarm.Same(realFresh) {
				fail("real-binary:warm-cache-output-differs-from-fresh-cache", "%s: the REAL binary on its persistent cache printed something else than on a fresh cache:\n%s\nstderr: %s", what, strings.ReplaceAll(simlint.Diff(realFresh, realWarm), dir, "$DIR"), realWarm.Stderr)
				break
			}
			if !realFresh.Same(ref) {
				return batch.Result{Infra: fmt.Sprintf("%s: simulator and real binary disagree on a fresh cache (the harness misrepresents the code):\n%s\nreal stderr: %s", what, simlint.Diff(ref, realFresh), realFresh.Stderr)}
			}
			res.Counters["sim_vs_real_agreements"]++
		}
	}
	res.SimTime = now.Sub(epoch).Seconds()
	res.Evals = res.Counters["runs_on_shared_cache"] + res.Counters["reference_runs"]
	res.Digests = digests
	for _, d := range digests {
		res.Digest = res.Digest*1099511628211 ^ d
	}
	res.Trivial = res.Counters["steps_with_problems"] == 0
	var opsList []string
	for _, s := range c.Steps {
		opsList = append(opsList, s.Op)
	}
	res.Sample = map[string]any{"packages": len(c.Mod.Pkgs), "history": opsList, "initial_flags": c.Flags, "digest": fmt.Sprintf("%x", res.Digest)}
	return res
}

type engine struct{}

func (engine) Name() string {
	if realMode {
		return "histsim-real"
	}
	return "histsim"
}
func (engine) Property() string { return "C04" }

func (engine) Generate(seed uint64, index int, tier string) json.RawMessage {
	r := genmod.Rng(seed)
	npkg := 3 + r.N(4)
	tests := r.P(350)
	m := genmod.Generate(&r, npkg, []string{"chain", "diamond", "random", "fan"}[r.N(4)], tests)
	// make sure facts flow: package 0 is imported by someone
	if len(m.Pkgs) > 1 && len(m.Pkgs[1].Imports) == 0 {
		m.Pkgs[1].Imports = []int{0}
	}
	if r.P(250) {
		m.ExtDep = 1 + r.N(2)
	}
	// the first run populates the cache: vary the conditions under which that
	// happens, not only the later steps
	c := Case{Mod: *m, Flags: Flags{Tests: tests, Checks: checkSets[r.N(len(checkSets))]}}
	if r.P(300) {
		c.Flags.Go = goVersions[r.N(len(goVersions))]
	}
	if r.P(200) {
		c.Flags.Tags = "extra"
	}
	if r.P(350) {
		c.Flags.Patterns = []int{npkg - 1 - r.N((npkg+1)/2)}
		if r.P(500) {
			// any package, also one that others import: it is then analysed
			// as a leaf of the run that populates the cache
			c.Flags.Patterns = []int{r.N(npkg)}
		}
	}
	// quick tier: many short histories (populate under one condition, run
	// under another; most cache-key defects need one or two changes and the
	// budget buys few linter runs); thorough tier: long ones as well
	n := 1 + r.N(5)
	if tier == "thorough" {
		n = 1 + r.N(25)
	}
	// swarm: per-case weights, first over the categories of the property's
	// quantifier (so that the many kinds of "edit a file of the target
	// package" do not crowd out flag changes and configuration edits), then
	// over the ops of a category
	cw := make([]int, len(opCats))
	w := make([]int, len(ops))
	tot := 0
	for ci, cat := range opCats {
		cw[ci] = 1 + r.N(4)
		sub := 0
		idx := make([]int, 0, len(cat))
		for _, name := range cat {
			for i := range ops {
				if ops[i] == name {
					idx = append(idx, i)
				}
			}
		}
		for _, i := range idx {
			w[i] = r.N(4)
			sub += w[i]
		}
		if sub == 0 {
			w[idx[r.N(len(idx))]] = 1
			sub = 1
		}
		// scale: category weight cw[ci] spread over its ops
		for _, i := range idx {
			w[i] = w[i] * cw[ci] * 60 / sub
			tot += w[i]
		}
	}
	if tot == 0 {
		w[0], tot = 1, 1
	}
	// In 40% of the cases the cache is populated under one condition and
	// used under the opposite one right away, along one dimension of the
	// quantifier: the typical ways a user's second run differs from the
	// first.
	if r.P(400) {
		first := Step{Pkg: r.N(npkg), Arg: 2 * r.N(500), Seed: r.Next(), Strategy: 1 + r.N(4), Procs: []int{1, 2, 4, 8}[r.N(4)]}
		switch r.N(5) {
		case 0, 1:
			// a narrow list of checks, then a wide one
			c.Flags.Checks = checkSets[2+r.N(len(checkSets)-2)]
			first.Op, first.Arg = "flag_checks", r.N(2)
		case 2:
			// one package (also one that others import), then the module
			c.Flags.Patterns = []int{r.N(npkg)}
			first.Op = "patterns" // even Arg: back to ./...
		case 3:
			// with tests, then without (or the reverse)
			first.Op = "flag_tests"
		case 4:
			if r.P(500) {
				c.Flags.Go = goVersions[1+r.N(len(goVersions)-1)]
				first.Op, first.Arg = "flag_go", 0
			} else {
				c.Flags.Tags = "extra"
				first.Op = "flag_tags"
			}
		}
		c.Steps = append(c.Steps, first)
	}
	for i := 0; i < n; i++ {
		x := r.N(tot)
		k := 0
		for x >= w[k] {
			x -= w[k]
			k++
		}
		s := Step{Op: ops[k], Pkg: r.N(npkg), Arg: r.N(1000), Seed: r.Next(), Strategy: 1 + r.N(4), Procs: []int{1, 2, 4, 8}[r.N(4)]}
		c.Steps = append(c.Steps, s)
	}
	b, _ := json.Marshal(c)
	return b
}

func (engine) Execute(raw json.RawMessage) batch.Result {
	var c Case
	if err := json.Unmarshal(raw, &c); err != nil {
		return batch.Result{Infra: err.Error()}
	}
	return execute(c, nil)
}

func (engine) Minimize(raw json.RawMessage, still func(json.RawMessage) bool) json.RawMessage {
	var c Case
	json.Unmarshal(raw, &c)
	enc := func(c Case) json.RawMessage { b, _ := json.Marshal(c); return b }
	// drop steps
	keep := batch.DDMin(len(c.Steps), func(keep []bool) bool {
		c2 := c
		c2.Steps = nil
		for i, k := range keep {
			if k {
				c2.Steps = append(c2.Steps, c.Steps[i])
			}
		}
		return len(c2.Steps) > 0 && still(enc(c2))
	})
	var ns []Step
	for i, k := range keep {
		if k {
			ns = append(ns, c.Steps[i])
		}
	}
	c.Steps = ns
	// simplest schedules
	for i := range c.Steps {
		c2 := c
		c2.Steps = append([]Step(nil), c.Steps...)
		c2.Steps[i].Strategy = int(verifsim.StratFIFO)
		c2.Steps[i].Procs = 1
		if still(enc(c2)) {
			c = c2
		}
	}
	// drop trailing packages
	for len(c.Mod.Pkgs) > 2 {
		c2 := c
		c2.Mod = *c.Mod.Clone()
		c2.Mod.Pkgs = c2.Mod.Pkgs[:len(c2.Mod.Pkgs)-1]
		if !still(enc(c2)) {
			break
		}
		c = c2
	}
	return enc(c)
}

func (engine) Describe() batch.Description {
	return batch.Description{
		Rule: "each case: a seeded module (3-6 packages with facts flowing through imports: deprecation of functions and methods, purity, nilness; directives; configuration files; optional tests, tagged and per-OS files) and a seeded history of 1-5 (thorough 1-25) steps, drawn by category of the quantifier, over {" + strings.Join(ops, ", ") + "}; every step is followed by a linter run on the one shared simulated cache directory (seeded schedule and worker count, persistent simulated clock, Close->Trim included) whose stdout bytes and exit status must equal those of a run of the same state on a fresh cache (FIFO, memoised per state). An evaluation is one simulated linter run; distinct = distinct (kernel event digest, output) pairs of runs on the shared cache; non-trivial = some step reports problems.",
		Assumptions: []string{
			"`go list -export` and the compiler are outside the simulator, run once per (source state, flags, environment) and memoised; package hashes are computed by the real loader.computeHash from their real export data",
			"for states with tests the 'fresh' cache is pre-populated with the standard-library closure of a test binary (computed from a trivial module under the same flags), never with anything of the module under test",
			"the binary's build id (cache salt) is a constant: histories do not include upgrading the linter",
		},
		RealVsStub: map[string]string{"lintcmd/runner (action keys, cache use)": "real (instrumented)", "go/loader (package hash)": "real", "lintcmd/cache": "real (instrumented) on simos", "config": "real", "analyzers": "real", "go list / compiler": "real subprocess, memoised", "clock": "simulated", "file system of the cache": "simulated; sources are real files"},
		FaultKinds: []string{"clock jumps (partial expiry through Trim)", "state revisits", "schedule", "worker count"},
	}
}

func main() {
	var rest []string
	for _, a := range os.Args[1:] {
		if a == "-family=real" {
			realMode = true
			batch.ExtraWorkerArgs = append(batch.ExtraWorkerArgs, a)
		} else {
			rest = append(rest, a)
		}
	}
	os.Args = append(os.Args[:1], rest...)
	batch.Main(engine{})
}
