// Package genmod generates small seeded Go modules whose staticcheck
// problems depend on exactly the inputs the runner's cache key has to cover:
// facts exported by (transitive) dependencies, configuration files, the
// target Go version, build tags, GOOS, test variants and directives.
package genmod

import (
	"crypto/sha256"
	"fmt"
	"os"
	"path/filepath"
	"sort"
	"strings"
)

// Pkg describes one package of the module. Everything that edits may change
// is a field, so that a module state is a value.
type Pkg struct {
	Imports []int `json:"imports,omitempty"` // indices of lower-numbered packages

	DepFunc   int  `json:"dep_func,omitempty"`   // 0: F not deprecated; 1: deprecated; 2: same-length non-marker comment
	DepMethod int  `json:"dep_method,omitempty"` // method T.M: 0 not deprecated; 1 deprecated; 2 same-length non-marker comment
	Common    int  `json:"common,omitempty"`     // 0: no common.go; 1: common.go whose commonUnused is unused; 2: the same file (same base name, same lines) with commonUnused used
	TestBody  int  `json:"test_body,omitempty"`  // version counter of the in-package test file only
	TwoFiles  bool `json:"two_files,omitempty"`  // a second source file with its own problems and a file-ignore directive
	Generic   bool `json:"generic,omitempty"`    // generic helpers, instantiated here and by importers
	IfaceUse  bool `json:"iface_use,omitempty"`  // a type whose methods are used only through an interface; an unused method next to it
	// DepPure: one function that is both deprecated and pure (an object
	// carrying facts of two types); importers call it and drop the result.
	DepPure bool `json:"dep_pure,omitempty"`
	// GenFiles: generated files ("// Code generated ... DO NOT EDIT.") that
	// belong to some variants of the package only: an in-package test file
	// (with Test) and a non-test file next to an external test package (with
	// XTest), each with a problem that checks do not report in generated code.
	GenFiles bool `json:"gen_files,omitempty"`
	// Plain: nothing in the package earns an analysis fact (every function
	// has a side effect and may return nil), so its facts output is empty:
	// the zero-length data file that all such packages share.
	Plain      bool   `json:"plain,omitempty"`
	IgnoreU    bool   `json:"ignore_u1000,omitempty"` // a //lint:ignore U1000 directive on a line that declares several objects (two variables; a function with a parameter)
	RecvMix    bool   `json:"recvmix,omitempty"`      // with Test: the in-package test file adds a method with another receiver name (ST1016 only in the test variant) and the main file carries a //lint:ignore ST1016 directive
	Pure       bool   `json:"pure,omitempty"`         // Pure has no side effect (purity fact)
	NonNil     bool   `json:"nonnil,omitempty"`       // Mk never returns nil (nilness fact)
	Local      int    `json:"local,omitempty"`        // bit set of local problems
	Ignore     int    `json:"ignore,omitempty"`       // 0 none, 1 line ignore that matches, 2 unmatched line ignore, 3 file ignore
	Initialism bool   `json:"initialism,omitempty"`   // exported func GetUrl (ST1003 depends on config)
	RangeInt   bool   `json:"rangeint,omitempty"`     // uses range-over-int (needs go1.22)
	Test       bool   `json:"test,omitempty"`         // in-package _test.go using helper()
	XTest      bool   `json:"xtest,omitempty"`        // external test package
	TagFile    bool   `json:"tagfile,omitempty"`      // file guarded by //go:build extra
	OSFiles    bool   `json:"osfiles,omitempty"`      // _linux.go / _windows.go pair
	Conf       string `json:"conf,omitempty"`         // package-level staticcheck.conf
	Pad        int    `json:"pad,omitempty"`          // number of blank comment lines at the top of the main file (line-shifting edit)
	Body       int    `json:"body,omitempty"`         // version counter: changes a constant in a function body
}

// Mod is a module state.
type Mod struct {
	Path     string `json:"path"`
	Go       string `json:"go"`
	Pkgs     []Pkg  `json:"pkgs"`
	RootConf string `json:"root_conf,omitempty"` // staticcheck.conf at the module root
	// staticcheck.conf in the directory above the module root (configuration
	// files are looked up beyond the module boundary). Only engines that put
	// the module into a private parent directory may set it; they remove the
	// file themselves when it becomes empty.
	OuterConf string `json:"outer_conf,omitempty"`
	// ExtDep: a second module, example.com/extdep, in the directory next to
	// the module root, required and directory-replaced in go.mod and imported
	// by package 0 (1: its function Old is deprecated, 2: it is not - same
	// length). Same restriction as OuterConf: only for engines that own the
	// parent directory.
	ExtDep  int `json:"ext_dep,omitempty"`
	ExtBody int `json:"ext_body,omitempty"`
}

const (
	LSelfAssign = 1 << iota
	LIdentical
	LBoolCmp
	LUnusedFunc
	LUnusedField
)

func pkgName(i int) string { return fmt.Sprintf("p%d", i) }

// Files renders the module as path -> content.
func (m *Mod) Files() map[string]string {
	out := map[string]string{}
	out["go.mod"] = fmt.Sprintf("module %s\n\ngo %s\n", m.Path, m.Go)
	if m.ExtDep > 0 {
		out["go.mod"] += "\nrequire example.com/extdep v0.0.0\n\nreplace example.com/extdep => ../extdep\n"
		out["../extdep/go.mod"] = "module example.com/extdep\n\ngo 1.21\n"
		dep := "Deprecated"
		if m.ExtDep == 2 {
			dep = "Deprecatex"
		}
		out["../extdep/extdep.go"] = fmt.Sprintf("// Package extdep lives in another module.\npackage extdep\n\n// Old does things.\n//\n// %s: use New.\nfunc Old() int { return %d }\n\n// New does things.\nfunc New() int { return 2 }\n", dep, 1+m.ExtBody)
	}
	if m.RootConf != "" {
		out["staticcheck.conf"] = m.RootConf
	}
	if m.OuterConf != "" {
		out["../staticcheck.conf"] = m.OuterConf
	}
	for i := range m.Pkgs {
		m.renderPkg(i, out)
	}
	return out
}

func (m *Mod) renderPkg(i int, out map[string]string) {
	p := &m.Pkgs[i]
	name := pkgName(i)
	if p.Plain {
		m.renderPlain(i, out)
		return
	}
	var b strings.Builder
	w := func(f string, a ...any) { fmt.Fprintf(&b, f, a...) }
	for k := 0; k < p.Pad; k++ {
		w("//\n")
	}
	if p.Ignore == 3 {
		w("//lint:file-ignore SA4000 generated exception\n\n")
	}
	w("// Package %s is generated.\npackage %s\n\n", name, name)
	ext := i == 0 && m.ExtDep > 0
	if len(p.Imports) > 0 || ext {
		w("import (\n")
		if ext {
			w("\t\"example.com/extdep\"\n")
		}
		for _, d := range p.Imports {
			w("\t%q\n", m.Path+"/"+pkgName(d))
		}
		w(")\n\n")
	}
	w("// T is a type.\ntype T struct {\n\tx int\n")
	if p.Local&LUnusedField != 0 {
		w("\ty int\n")
	}
	w("}\n\n")
	w("// New returns a T.\nfunc New() *T { return &T{x: %d} }\n\n", 1+p.Body)
	w("// M is a method.\n")
	switch p.DepMethod {
	case 1:
		w("//\n// Deprecated: use N.\n")
	case 2:
		w("//\n// Deprecatex: use N.\n")
	}
	if p.RecvMix {
		w("//\n//lint:ignore ST1016 generated exception\n")
	}
	w("func (t *T) M() int { return t.x }\n\n")
	w("// N is a method.\nfunc (t *T) N() int { return t.x + 1 }\n\n")
	w("// F does things.\n")
	switch p.DepFunc {
	case 1:
		w("//\n// Deprecated: use G.\n")
	case 2:
		w("//\n// Deprecatex: use G.\n")
	}
	w("func F() int { return %d }\n\n", 1+p.Body)
	w("// G does things.\nfunc G() int { return 2 }\n\n")
	if p.DepPure {
		w("// Both is pure and deprecated.\n//\n// Deprecated: use Pure.\nfunc Both(a int) int { return a + 1 }\n\n")
	}
	if p.Pure {
		w("// Pure adds.\nfunc Pure(a, b int) int { return a + b }\n\n")
	} else {
		w("var sink int\n\n// Pure adds and counts.\nfunc Pure(a, b int) int { sink++; return a + b + sink }\n\n")
	}
	w("// Iface is an interface.\ntype Iface interface{ Do() }\n\ntype impl struct{}\n\nfunc (impl) Do() {}\n\n")
	if p.NonNil {
		w("// Mk makes an Iface.\nfunc Mk() Iface { return impl{} }\n\n")
	} else {
		w("var flag bool\n\n// Mk makes an Iface.\nfunc Mk() Iface {\n\tif flag {\n\t\treturn nil\n\t}\n\treturn impl{}\n}\n\n")
	}
	// Via re-exports a type of the first dependency, so that importers of
	// this package reach facts of a package they do not import themselves.
	if len(p.Imports) > 0 {
		w("// Via returns a value of a type of a dependency.\nfunc Via() *%s.T { return %s.New() }\n\n", pkgName(p.Imports[0]), pkgName(p.Imports[0]))
	}
	if m.hasV2(i) {
		// a value whose type lives two import edges away, without importing
		// that package: importers of this package reach facts three edges away
		w("// V2 holds a value of a type two import edges away.\nvar V2 = %s.Via()\n\n", pkgName(p.Imports[0]))
	}
	// Use: exercises facts of dependencies
	w("// Use uses the dependencies.\nfunc Use() int {\n\tn := 0\n")
	if ext {
		w("\tn += extdep.Old()\n")
	}
	for _, d := range p.Imports {
		dn := pkgName(d)
		w("\tn += %s.F()\n", dn)
		w("\tn += %s.New().M()\n", dn)
		w("\t%s.Pure(1, 2)\n", dn)
		w("\tif %s.Mk() == nil {\n\t\tn++\n\t}\n", dn)
		w("\tn += %s.Use()\n", dn)
		if m.Pkgs[d].DepPure && !m.Pkgs[d].Plain {
			w("\t%s.Both(1)\n", dn)
		}
		if len(m.Pkgs[d].Imports) > 0 {
			// a method of a package two import edges away
			w("\tn += %s.Via().M()\n", dn)
		}
		if m.hasV2(d) {
			// ... and three import edges away
			w("\tn += %s.V2.M()\n", dn)
		}
	}
	w("\treturn n\n}\n\n")
	// Local problems
	w("// Local has local problems.\nfunc Local() int {\n\tx := %d\n", 1+p.Body)
	if p.Local&LSelfAssign != 0 {
		if p.Ignore == 1 {
			w("\t//lint:ignore SA4018 generated exception\n")
		}
		w("\tx = x\n")
	}
	if p.Ignore == 2 {
		w("\t//lint:ignore SA1000 this matches nothing\n")
		w("\tx++\n")
	}
	if p.Local&LIdentical != 0 {
		w("\tif x == x {\n\t\tx++\n\t}\n")
	}
	if p.Local&LBoolCmp != 0 {
		w("\tvar b bool\n\tif b == true {\n\t\tx++\n\t}\n")
	}
	w("\treturn x\n}\n\n")
	if p.Local&LUnusedFunc != 0 {
		w("func unusedFunc() int { return 7 }\n\n")
	}
	w("func helper() int { return 3 }\n\n")
	if p.IgnoreU {
		w("//lint:ignore U1000 generated exception\nvar spareA, spareB int\n\n")
		w("//lint:ignore U1000 generated exception\nfunc spareFunc(n int) int { return n + 1 }\n\n")
		w("var reallyUnused int\n\n")
	}
	if !p.Test {
		// without the in-package test something else must use helper in some
		// configurations: leave it unused on purpose (U1000 depends on -tests)
	}
	if p.Initialism {
		w("// GetUrl returns a URL.\nfunc GetUrl() string { return \"\" }\n\n")
	}
	if p.Generic {
		w("// Pick returns one of two values.\nfunc Pick[T any](a, b T, first bool) T {\n\tif first {\n\t\treturn a\n\t}\n\treturn b\n}\n\n")
		w("// Pair is a generic pair.\ntype Pair[A, B any] struct {\n\tL A\n\tR B\n}\n\n// Swap swaps.\nfunc (p Pair[A, B]) Swap() Pair[B, A] { return Pair[B, A]{p.R, p.L} }\n\n")
		w("func usePick() int {\n\tq := Pair[int, string]{1, \"a\"}.Swap()\n\tq.L = q.L\n\treturn Pick(q.R, 2, true)\n}\n\n")
		w("// UsePick uses the generic helpers.\nfunc UsePick() int { return usePick() }\n\n")
	}
	for _, d := range p.Imports {
		if m.Pkgs[d].Generic && !m.Pkgs[d].Plain {
			w("// Via%s instantiates generic helpers of a dependency.\nfunc Via%s() int {\n\tv := %s.Pair[int, int]{L: 1, R: 2}.Swap()\n\treturn %s.Pick(v.L, v.R, false)\n}\n\n", pkgName(d), pkgName(d), pkgName(d), pkgName(d))
		}
	}
	if p.IfaceUse {
		w("type shower interface{ show() int }\n\ntype box struct{ v int }\n\nfunc (b box) show() int { return b.v }\n\nfunc (b box) hidden() int { return -b.v }\n\n// Show uses box through an interface only.\nfunc Show() int {\n\tvar s shower = box{v: 1}\n\treturn s.show()\n}\n\n")
	}
	if p.RangeInt {
		w("// R ranges over an int.\nfunc R() int {\n\tn := 0\n\tfor i := range 3 {\n\t\tn += i\n\t}\n\treturn n\n}\n\n")
	}
	out[name+"/"+name+".go"] = b.String()

	if p.Common > 0 {
		// every package's common.go has the same base name and the same
		// objects on the same lines; only the use of commonUnused differs
		use := "0"
		if p.Common == 2 {
			use = "commonUnused()"
		}
		out[name+"/common.go"] = fmt.Sprintf("package %s\n\nfunc commonUnused() int { return 0 }\n\nfunc commonHelper() int { return 1 }\n\n// CommonUsed is exported.\nfunc CommonUsed() int { return commonHelper() + %s }\n", name, use)
	}
	if p.TwoFiles {
		out[name+"/"+name+"_b.go"] = fmt.Sprintf("//lint:file-ignore SA4018 second file exception\n\npackage %s\n\n// Second lives in the second file.\nfunc Second() int {\n\ty := %d\n\ty = y\n\tif y == y {\n\t\ty++\n\t}\n\treturn y + helper()\n}\n\nfunc secondUnused() int { return 2 }\n", name, 1+p.Body)
	}
	if p.Test {
		extra := ""
		if p.RecvMix {
			extra = "\n// SetX is declared in the test file with another receiver name.\nfunc (x *T) SetX(v int) { x.x = v }\n"
		}
		// Clamp: an exported, pure function that exists only in the test
		// variant of the package; the external test package drops its result
		extra += "\n// Clamp is pure and lives in the test variant only.\nfunc Clamp(a int) int { return a + 1 }\n"
		out[name+"/"+name+"_test.go"] = fmt.Sprintf("package %s\n\n// CheckHelper uses helper.\nfunc CheckHelper() int { return helper() }\n\nfunc testOnlyUnused() int { return %d }\n%s", name, 1+p.TestBody, extra)
	}
	if p.XTest {
		clamp := ""
		if p.Test {
			clamp = fmt.Sprintf("\n// CheckClamp drops the result of a pure function of the test variant.\nfunc CheckClamp() {\n\t%s.Clamp(1)\n}\n", name)
		}
		out[name+"/x_test.go"] = fmt.Sprintf("package %s_test\n\nimport %q\n\n// CheckF uses F.\nfunc CheckF() int { return %s.F() }\n%s", name, m.Path+"/"+name, name, clamp)
	}
	if p.GenFiles {
		if p.Test {
			out[name+"/mock_gen_test.go"] = fmt.Sprintf("// Code generated by mockgen. DO NOT EDIT.\n\npackage %s\n\n// MockSelf is generated.\nfunc MockSelf() int {\n\tm := 1\n\tm = m\n\tvar b bool\n\tif b == true {\n\t\tm++\n\t}\n\treturn m\n}\n", name)
		}
		out[name+"/zz_generated.go"] = fmt.Sprintf("// Code generated by gen. DO NOT EDIT.\n\npackage %s\n\n// Gen is generated.\nfunc Gen() int {\n\tg := 1\n\tg = g\n\tvar b bool\n\tif b == true {\n\t\tg++\n\t}\n\treturn g\n}\n", name)
	}
	if p.TagFile {
		out[name+"/extra.go"] = fmt.Sprintf("//go:build extra\n\npackage %s\n\n// Extra exists only with the extra tag.\nfunc Extra() int {\n\ty := helper()\n\ty = y\n\treturn y\n}\n", name)
	}
	if p.OSFiles {
		out[name+"/os_linux.go"] = fmt.Sprintf("package %s\n\n// OS is per-OS.\nfunc OS() int {\n\tz := 1\n\tz = z\n\treturn z\n}\n", name)
		out[name+"/os_windows.go"] = fmt.Sprintf("package %s\n\n// OS is per-OS.\nfunc OS() int {\n\tz := 2\n\tif z == z {\n\t\tz++\n\t}\n\treturn z\n}\n", name)
	}
	if p.Conf != "" {
		out[name+"/staticcheck.conf"] = p.Conf
	}
}

// hasV2: package i exports V2, a value of a type of the first import of its
// first import.
func (m *Mod) hasV2(i int) bool {
	p := &m.Pkgs[i]
	return len(p.Imports) > 0 && len(m.Pkgs[p.Imports[0]].Imports) > 0
}

// renderPlain renders a package without facts (see Pkg.Plain). It offers
// what importers use (T, New, M, F, Pure, Mk, Use, Via) and keeps the
// deprecation switches, the local problems and the configuration file.
func (m *Mod) renderPlain(i int, out map[string]string) {
	p := &m.Pkgs[i]
	name := pkgName(i)
	var b strings.Builder
	w := func(f string, a ...any) { fmt.Fprintf(&b, f, a...) }
	for k := 0; k < p.Pad; k++ {
		w("//\n")
	}
	w("// Package %s is generated.\npackage %s\n\n", name, name)
	ext := i == 0 && m.ExtDep > 0
	if len(p.Imports) > 0 || ext {
		w("import (\n")
		if ext {
			w("\t\"example.com/extdep\"\n")
		}
		for _, d := range p.Imports {
			w("\t%q\n", m.Path+"/"+pkgName(d))
		}
		w(")\n\n")
	}
	w("var sink int\n\nvar flag bool\n\n")
	w("// T is a type.\ntype T struct {\n\tx int\n}\n\n")
	w("// New returns a T.\nfunc New() *T {\n\tif flag {\n\t\treturn nil\n\t}\n\tsink++\n\treturn &T{x: sink + %d}\n}\n\n", p.Body)
	w("// M is a method.\n")
	switch p.DepMethod {
	case 1:
		w("//\n// Deprecated: use N.\n")
	case 2:
		w("//\n// Deprecatex: use N.\n")
	}
	w("func (t *T) M() int { sink++; return t.x }\n\n")
	w("// N is a method.\nfunc (t *T) N() int { sink++; return t.x + 1 }\n\n")
	w("// F does things.\n")
	switch p.DepFunc {
	case 1:
		w("//\n// Deprecated: use G.\n")
	case 2:
		w("//\n// Deprecatex: use G.\n")
	}
	w("func F() int { sink++; return sink + %d }\n\n", p.Body)
	w("// G does things.\nfunc G() int { sink++; return sink }\n\n")
	w("// Pure adds and counts.\nfunc Pure(a, b int) int { sink++; return a + b + sink }\n\n")
	w("// Iface is an interface.\ntype Iface interface{ Do() }\n\ntype impl struct{}\n\nfunc (impl) Do() { sink++ }\n\n")
	w("// Mk makes an Iface.\nfunc Mk() Iface {\n\tif flag {\n\t\treturn nil\n\t}\n\treturn impl{}\n}\n\n")
	if len(p.Imports) > 0 {
		w("// Via returns a value of a type of a dependency.\nfunc Via() *%s.T { sink++; return %s.New() }\n\n", pkgName(p.Imports[0]), pkgName(p.Imports[0]))
	}
	if m.hasV2(i) {
		w("// V2 holds a value of a type two import edges away.\nvar V2 = %s.Via()\n\n", pkgName(p.Imports[0]))
	}
	w("// Use uses the dependencies.\nfunc Use() int {\n\tsink++\n\tn := sink\n")
	if ext {
		w("\tn += extdep.Old()\n")
	}
	for _, d := range p.Imports {
		dn := pkgName(d)
		w("\tn += %s.F()\n", dn)
		w("\tn += %s.New().M()\n", dn)
		w("\t%s.Pure(1, 2)\n", dn)
		w("\tif %s.Mk() == nil {\n\t\tn++\n\t}\n", dn)
		w("\tn += %s.Use()\n", dn)
		if m.Pkgs[d].DepPure && !m.Pkgs[d].Plain {
			w("\t%s.Both(1)\n", dn)
		}
		if len(m.Pkgs[d].Imports) > 0 {
			w("\tn += %s.Via().M()\n", dn)
		}
		if m.hasV2(d) {
			w("\tn += %s.V2.M()\n", dn)
		}
	}
	w("\treturn n\n}\n\n")
	w("// Local has local problems.\nfunc Local() int {\n\tsink++\n\tx := sink + %d\n", p.Body)
	if p.Local&LSelfAssign != 0 {
		w("\tx = x\n")
	}
	if p.Local&LIdentical != 0 {
		w("\tif x == x {\n\t\tx++\n\t}\n")
	}
	if p.Local&LBoolCmp != 0 {
		w("\tvar b bool\n\tif b == true {\n\t\tx++\n\t}\n")
	}
	w("\treturn x\n}\n")
	out[name+"/"+name+".go"] = b.String()
	if p.Conf != "" {
		out[name+"/staticcheck.conf"] = p.Conf
	}
}

// Digest identifies the module state.
func (m *Mod) Digest() string {
	files := m.Files()
	names := make([]string, 0, len(files))
	for n := range files {
		names = append(names, n)
	}
	sort.Strings(names)
	h := sha256.New()
	for _, n := range names {
		fmt.Fprintf(h, "%s\x00%d\x00%s\x00", n, len(files[n]), files[n])
	}
	return fmt.Sprintf("%x", h.Sum(nil)[:12])
}

// Write materialises the module below dir, removing files that are no longer
// part of it. Files whose content is unchanged are not rewritten.
func (m *Mod) Write(dir string) error {
	files := m.Files()
	// remove stale files
	filepath.Walk(dir, func(path string, info os.FileInfo, err error) error {
		if err != nil || info.IsDir() {
			return nil
		}
		rel, _ := filepath.Rel(dir, path)
		if _, ok := files[filepath.ToSlash(rel)]; !ok {
			os.Remove(path)
		}
		return nil
	})
	for n, c := range files {
		p := filepath.Join(dir, filepath.FromSlash(n))
		if old, err := os.ReadFile(p); err == nil && string(old) == c {
			continue
		}
		if err := os.MkdirAll(filepath.Dir(p), 0777); err != nil {
			return err
		}
		if err := os.WriteFile(p, []byte(c), 0666); err != nil {
			return err
		}
	}
	return nil
}

// Rng is the splitmix64 generator used by all generators.
type Rng uint64

func (r *Rng) Next() uint64 {
	*r += 0x9E3779B97F4A7C15
	z := uint64(*r)
	z = (z ^ (z >> 30)) * 0xBF58476D1CE4E5B9
	z = (z ^ (z >> 27)) * 0x94D049BB133111EB
	return z ^ (z >> 31)
}
func (r *Rng) N(n int) int            { return int(r.Next() % uint64(n)) }
func (r *Rng) P(permille int) bool    { return r.N(1000) < permille }
func (r *Rng) Pick(s []string) string { return s[r.N(len(s))] }

// Shape names the graph shapes.
var Shapes = []string{"chain", "diamond", "fan", "two-components", "random"}

// Generate returns a seeded module of npkg packages.
func Generate(r *Rng, npkg int, shape string, tests bool) *Mod {
	m := &Mod{Path: fmt.Sprintf("example.com/m%d", r.N(1000000)), Go: "1.22"}
	for i := 0; i < npkg; i++ {
		p := Pkg{
			DepFunc:    []int{0, 1, 1, 2}[r.N(4)],
			DepMethod:  []int{0, 1, 1, 2}[r.N(4)],
			Pure:       r.P(600),
			NonNil:     r.P(600),
			Local:      r.N(32),
			Ignore:     r.N(4),
			Initialism: r.P(450),
			RangeInt:   r.P(150),
			IgnoreU:    r.P(250),
			TwoFiles:   r.P(300),
			Common:     []int{0, 1, 2, 1}[r.N(4)],
			Generic:    r.P(300),
			IfaceUse:   r.P(300),
			TagFile:    r.P(200),
			OSFiles:    r.P(200),
		}
		p.DepPure = r.P(400)
		p.GenFiles = r.P(300)
		if r.P(250) {
			p.Plain = true
			if p.DepFunc == 1 {
				p.DepFunc = 2
			}
			if p.DepMethod == 1 {
				p.DepMethod = 2
			}
		}
		if tests {
			p.Test = r.P(500)
			p.XTest = r.P(300)
			p.RecvMix = p.Test && r.P(400)
		}
		switch shape {
		case "chain":
			if i > 0 {
				p.Imports = []int{i - 1}
			}
		case "diamond":
			switch {
			case i == 0:
			case i == npkg-1 && npkg > 2:
				for d := 1; d < i; d++ {
					p.Imports = append(p.Imports, d)
				}
				if len(p.Imports) == 0 {
					p.Imports = []int{0}
				}
			default:
				p.Imports = []int{0}
			}
		case "fan":
			if i > 0 {
				p.Imports = []int{0}
			}
		case "two-components":
			if i >= 2 {
				p.Imports = []int{i % 2}
				if i >= 4 && r.P(500) {
					p.Imports = []int{i - 2}
				}
			}
		default:
			for d := 0; d < i; d++ {
				if r.P(400) {
					p.Imports = append(p.Imports, d)
				}
			}
		}
		if r.P(400) {
			p.Conf = Confs[r.N(len(Confs))]
		}
		m.Pkgs = append(m.Pkgs, p)
	}
	if r.P(250) {
		m.RootConf = Confs[r.N(len(Confs))]
	}
	return m
}

// Confs are the configuration file variants used by generators.
var Confs = []string{
	"checks = [\"all\"]\n",
	"checks = [\"inherit\", \"-SA4018\"]\n",
	"checks = [\"inherit\", \"ST1000\"]\n",
	"initialisms = [\"inherit\", \"URL\"]\n",
	"initialisms = [\"ACL\"]\n",
	"checks = [\"SA*\", \"-SA1019\"]\ninitialisms = []\n",
	"checks = [\"inherit\", \"-U1000\"]\n",
	// literal lists: no "all", no "inherit"
	"checks = [\"SA4000\"]\n",
	"checks = [\"S1002\", \"ST1003\", \"SA4018\"]\n",
	"checks = [\"U1000\", \"SA1019\"]\n",
}

// Clone returns a deep copy.
func (m *Mod) Clone() *Mod {
	c := *m
	c.Pkgs = make([]Pkg, len(m.Pkgs))
	for i, p := range m.Pkgs {
		p.Imports = append([]int(nil), p.Imports...)
		c.Pkgs[i] = p
	}
	return &c
}
