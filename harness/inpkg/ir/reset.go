package ir

// VerifResetCPULimit empties the package-level build semaphore. A simulated
// run that was stopped (deadlock, step bound, panic) can leave tokens in it;
// in a real process that state would die with the process.
func VerifResetCPULimit() {
	for len(cpuLimit) > 0 {
		<-cpuLimit
	}
}
