package ir

// VerifResetCPULimit empties the package-level build semaphore. A simulated
// run that was stopped (deadlock, step bound, panic) can leave tokens in it;
// in a real process that state would die with the process.
func VerifResetCPULimit() {
	for len(cpuLimit) > 0 {
		<-cpuLimit
	}
}

// VerifSetCPULimit replaces the build semaphore by an empty one of the given
// capacity (it is sized from GOMAXPROCS at package initialisation; the
// capacity is a per-case parameter of the simulation).
func VerifSetCPULimit(n int) {
	cpuLimit = make(chan unit, n)
}

// VerifCPULimitLen returns the number of tokens currently held.
func VerifCPULimitLen() int { return len(cpuLimit) }
