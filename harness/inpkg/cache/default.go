package cache

import (
	"fmt"
	"path/filepath"

	"honnef.co/go/tools/internal/verifsim"
	"honnef.co/go/tools/internal/verifsim/simos"
)

// VerifDefault stands in for Default() in the instrumented scratch copy
// (the call in package lintcmd is redirected here). Default() finds the
// directory in the OS process' environment and keeps the opened cache in a
// process-global; a simulated process is a task group inside one OS process,
// so both come from the simulated process' context instead. The body is
// initDefaultCache's: create the directory, leave the README, open.
func VerifDefault() (Cache, error) {
	ctx := verifsim.CurProcContext()
	if ctx == nil || !filepath.IsAbs(ctx.CacheDir) {
		return nil, fmt.Errorf("STATICCHECK_CACHE is not an absolute path")
	}
	dir := ctx.CacheDir
	if err := simos.MkdirAll(dir, 0777); err != nil {
		return nil, fmt.Errorf("failed to initialize build cache at %s: %s", dir, err)
	}
	if _, err := simos.Stat(filepath.Join(dir, "README")); err != nil {
		// Best effort.
		simos.WriteFile(filepath.Join(dir, "README"), []byte(cacheREADME), 0666)
	}
	c, err := Open(dir)
	if err != nil {
		return nil, fmt.Errorf("failed to initialize build cache at %s: %s", dir, err)
	}
	VerifResetProcessGlobals()
	return c, nil
}
