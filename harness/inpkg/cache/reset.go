package cache

// VerifResetProcessGlobals resets what a fresh OS process would start with.
// A simulated process is a task group inside one OS process; package-level
// memo tables must not leak from one simulated process into the next.
func VerifResetProcessGlobals() {
	hashFileCache.Lock()
	hashFileCache.m = nil
	hashFileCache.Unlock()
}
