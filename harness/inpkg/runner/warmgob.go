package runner

import (
	"encoding/gob"
	"io"
	"reflect"
	"sync"

	"golang.org/x/tools/go/analysis"
)

var verifWarmOnce sync.Once

// VerifWarmGob makes the byte content of everything the runner caches a
// function of the data alone. encoding/gob allocates its type ids from a
// process-global counter in order of first use; the ids are part of every
// stream, so without this the bytes of a facts or results file (hence its
// content hash, hence its file name in the cache) depend on which types this
// OS process happened to encode first - i.e. on the cases a worker ran
// before. Encoding one value of every type the runner ever encodes, in a
// fixed order, before the first simulation pins the ids.
func VerifWarmGob(analyzers []*analysis.Analyzer) {
	verifWarmOnce.Do(func() {
		analyzers = allAnalyzers(analyzers)
		registerGobTypes(analyzers)
		enc := gob.NewEncoder(io.Discard)
		enc.Encode(gobFact{})
		enc.Encode(ResultData{})
		enc.Encode(TestData{})
		for _, a := range analyzers {
			for _, f := range a.FactTypes {
				// FactTypes are typed nil pointers or zero values; gob needs a
				// non-nil value to compile the type
				v := reflect.ValueOf(f)
				if v.Kind() == reflect.Pointer && v.IsNil() {
					v = reflect.New(v.Type().Elem())
				}
				fact, ok := v.Interface().(analysis.Fact)
				if !ok {
					continue
				}
				if err := enc.Encode(gobFact{Fact: fact}); err != nil {
					panic("VerifWarmGob: " + err.Error())
				}
			}
		}
	})
}
