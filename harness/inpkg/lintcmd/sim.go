package lintcmd

// This file exists only in the instrumented scratch copy (it is dropped in
// by /verif/bin/mkscratch). It gives the harness packages an entry point
// that performs exactly what Command.Execute -> Command.lint performs for a
// plain (non -matrix) invocation, except that (a) the cache is opened on an
// explicit directory instead of through the process-global cache.Default,
// (b) the working directory is a parameter instead of the process' cwd and
// (c) nothing calls os.Exit. The equivalence with the real binary is
// checked continuously by the harnesses' sim-vs-real cross-checks.

import (
	"fmt"
	"maps"
	"os"
	"slices"

	"honnef.co/go/tools/analysis/lint"
	"honnef.co/go/tools/config"
	"honnef.co/go/tools/internal/verifsim"
	"honnef.co/go/tools/lintcmd/cache"
	"honnef.co/go/tools/lintcmd/runner"

	"golang.org/x/tools/go/buildutil"
	"golang.org/x/tools/go/packages"
)

// VerifInvocation describes one run of the linter "binary".
type VerifInvocation struct {
	Args     []string // command line without the program name
	Dir      string   // working directory
	CacheDir string   // STATICCHECK_CACHE
	Env      []string // additions to the environment (e.g. GOOS=windows)
	Salt     []byte   // stands for the binary's build id
}

// VerifLint runs one linter invocation and returns the exit status. Output
// goes to the calling simulated process' stdout/stderr.
func VerifLint(analyzers []*lint.Analyzer, inv VerifInvocation) int {
	cmd := NewCommand("staticcheck")
	cmd.ParseFlags(inv.Args)
	cmd.AddAnalyzers(analyzers...)

	// --- Command.Execute
	defaultChecks := []string{"all"}
	for _, a := range cmd.analyzers {
		if a.Doc.NonDefault {
			defaultChecks = append(defaultChecks, "-"+a.Analyzer.Name)
		}
	}
	// Execute appends in map order; the order of exclusions cannot matter
	// to filterAnalyzerNames, but keep the global deterministic for replay.
	slices.Sort(defaultChecks[1:])
	config.DefaultConfig.Checks = defaultChecks

	// --- Command.lint
	switch cmd.flags.formatter {
	case "text", "stylish", "json", "sarif", "null":
	default:
		fmt.Fprintf(verifsim.Stderr(), "unsupported output format %q\n", cmd.flags.formatter)
		return 2
	}
	bc := buildConfig{Envs: inv.Env}
	if cmd.flags.tags != "" {
		tf := buildutil.TagsFlag{}
		if err := tf.Set(cmd.flags.tags); err != nil {
			fmt.Fprintln(verifsim.Stderr(), fmt.Errorf("invalid value %q for flag -tags: %s", cmd.flags.tags, err))
			return 1
		}
		bc.Flags = []string{"-tags", cmd.flags.tags}
	}
	cs := slices.Collect(maps.Values(cmd.analyzers))
	opts := options{
		analyzers: cs,
		patterns:  cmd.flags.fs.Args(),
		lintTests: cmd.flags.tests,
		goVersion: string(cmd.flags.goVersion),
		config: config.Config{
			Checks: cmd.flags.checks,
		},
	}

	// --- newLinter, with an explicit cache directory
	if err := verifMkdirAll(inv.CacheDir); err != nil {
		fmt.Fprintln(verifsim.Stderr(), err)
		return 1
	}
	c, err := cache.Open(inv.CacheDir)
	if err != nil {
		fmt.Fprintln(verifsim.Stderr(), err)
		return 1
	}
	cache.VerifResetProcessGlobals()
	cache.SetSalt(inv.Salt)
	as := make(map[caseFoldedString]*lint.Analyzer, len(opts.analyzers))
	for _, a := range opts.analyzers {
		as[makeCaseFoldedString(a.Analyzer.Name)] = a
	}
	l := &linter{cache: c, analyzers: as, opts: opts}

	// --- linter.run (without the SIGINFO goroutine)
	cfg := &packages.Config{Dir: inv.Dir}
	if l.opts.lintTests {
		cfg.Tests = true
	}
	cfg.BuildFlags = bc.Flags
	cfg.Env = append(os.Environ(), bc.Envs...)
	r, err := runner.New(l.opts.config, l.cache)
	if err != nil {
		fmt.Fprintln(verifsim.Stderr(), err)
		return 1
	}
	r.GoVersion = l.opts.goVersion
	res, err := l.lint(r, cfg, l.opts.patterns)
	for i := range res.Diagnostics {
		res.Diagnostics[i].BuildName = bc.Name
	}
	if err != nil {
		fmt.Fprintln(verifsim.Stderr(), err)
		return 1
	}
	for _, w := range res.Warnings {
		fmt.Fprintln(verifsim.Stderr(), "warning:", w)
	}
	runs := []run{runFromLintResult(res)}

	l.cache.Close()

	diags := mergeRuns(runs)
	return cmd.printDiagnostics(cs, diags)
}
