package lintcmd

// This file exists only in the instrumented scratch copy (it is dropped in
// by /verif/bin/mkscratch). It is the entry point of a simulated linter
// process: it does what cmd/staticcheck's main does (NewCommand, ParseFlags,
// AddAnalyzers) and then calls the real Command.Execute. What an OS process
// takes from its environment - working directory, STATICCHECK_CACHE, the
// environment, the identity of the binary - is the simulated process'
// context (verifsim.ProcContext); the instrumenter redirects the calls that
// read them (cache.Default, os.Environ, computeSalt in this package;
// loader.Graph in package runner). Nothing of Command.Execute, Command.lint,
// newLinter, linter.run or linter.lint is replicated here.

import (
	"os"

	"honnef.co/go/tools/analysis/lint"
	"honnef.co/go/tools/internal/verifsim"
)

// VerifInvocation describes one run of the linter "binary".
type VerifInvocation struct {
	Args     []string // command line without the program name
	Dir      string   // working directory
	CacheDir string   // STATICCHECK_CACHE
	Env      []string // additions to the environment (e.g. GOOS=windows)
	Salt     []byte   // stands for the binary's build id
}

func init() {
	// no SIGUSR1/SIGINFO progress goroutine in simulated processes: it
	// never ends, and signals are per OS process
	infoSignals = nil
}

// VerifLint runs one linter invocation and returns the exit status. Output
// goes to the calling simulated process' stdout/stderr.
func VerifLint(analyzers []*lint.Analyzer, inv VerifInvocation) int {
	verifsim.SetProcContext(&verifsim.ProcContext{Dir: inv.Dir, CacheDir: inv.CacheDir, Env: inv.Env, Salt: inv.Salt})
	defer verifsim.SetProcContext(nil)
	cmd := NewCommand("staticcheck")
	cmd.ParseFlags(inv.Args)
	cmd.AddAnalyzers(analyzers...)
	return cmd.Execute()
}

// verifEnviron replaces os.Environ() in this package.
func verifEnviron() []string {
	env := os.Environ()
	if ctx := verifsim.CurProcContext(); ctx != nil {
		env = append(env, ctx.Env...)
	}
	return env
}

// verifSalt replaces computeSalt() in this package (which hashes the
// running executable: the simulation engine, ~100 MB, once per run).
func verifSalt() ([]byte, error) {
	if ctx := verifsim.CurProcContext(); ctx != nil && ctx.Salt != nil {
		return ctx.Salt, nil
	}
	return []byte("verif-simulated-binary-build-id"), nil
}
