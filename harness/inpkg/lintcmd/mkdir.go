package lintcmd

import "honnef.co/go/tools/internal/verifsim/simos"

func verifMkdirAll(dir string) error { return simos.MkdirAll(dir, 0777) }
