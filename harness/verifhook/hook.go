// Package verifhook holds the harness-side replacements that need to import
// repository packages (and therefore cannot live in verifsim).
package verifhook

import (
	"fmt"
	"sort"
	"strings"
	"sync"

	"honnef.co/go/tools/go/loader"

	"golang.org/x/tools/go/packages"
)

// State identifies the complete source state (every file below the module
// roots in play, plus anything else `go list` can see) of the module that
// simulated linter processes are about to analyse. The harness sets it
// whenever it edits sources. While it is non-empty, loader.Graph is memoised
// per (State, build flags, environment delta, tests, patterns): `go list` is
// an external, deterministic stub (DESIGN.md §2.6).
var State string

// BaseEnv is subtracted from cfg.Env when forming the memo key (the real
// process environment is huge and identical for all calls).
var BaseEnv []string

var (
	mu    sync.Mutex
	memo  = map[string]result{}
	Calls int
	Hits  int
)

type result struct {
	specs []*loader.PackageSpec
	err   error
}

// Graph replaces loader.Graph in package runner.
func Graph(cfg *packages.Config, patterns ...string) ([]*loader.PackageSpec, error) {
	if State == "" {
		return loader.Graph(cfg, patterns...)
	}
	base := map[string]bool{}
	for _, e := range BaseEnv {
		base[e] = true
	}
	var env []string
	var flags []string
	tests := false
	dir := ""
	if cfg != nil {
		for _, e := range cfg.Env {
			if !base[e] {
				env = append(env, e)
			}
		}
		sort.Strings(env)
		flags = cfg.BuildFlags
		tests = cfg.Tests
		dir = cfg.Dir
	}
	key := fmt.Sprintf("%s\x00%s\x00%v\x00%s\x00%s\x00%s", State, dir, tests, strings.Join(flags, "\x01"), strings.Join(env, "\x01"), strings.Join(patterns, "\x01"))
	mu.Lock()
	Calls++
	r, ok := memo[key]
	if ok {
		Hits++
	}
	mu.Unlock()
	if ok {
		return r.specs, r.err
	}
	specs, err := loader.Graph(cfg, patterns...)
	mu.Lock()
	memo[key] = result{specs, err}
	mu.Unlock()
	return specs, err
}

// Forget drops the memo (used between unrelated workloads to bound memory).
func Forget() {
	mu.Lock()
	memo = map[string]result{}
	mu.Unlock()
}
