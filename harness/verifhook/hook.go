// Package verifhook holds the harness-side replacements that need to import
// repository packages (and therefore cannot live in verifsim).
package verifhook

import (
	"fmt"
	"sort"
	"strings"
	"sync"

	"honnef.co/go/tools/go/loader"
	"honnef.co/go/tools/internal/verifsim"

	"golang.org/x/tools/go/packages"
)

// State identifies the complete source state (every file below the module
// roots in play, plus anything else `go list` can see) of the module that
// simulated linter processes are about to analyse. The harness sets it
// whenever it edits sources. While it is non-empty, loader.Graph is memoised
// per (State, build flags, environment delta, tests, patterns): `go list` is
// an external, deterministic stub (DESIGN.md §2.6).
var State string

// BaseEnv is subtracted from cfg.Env when forming the memo key (the real
// process environment is huge and identical for all calls).
var BaseEnv []string

var (
	mu    sync.Mutex
	memo  = map[string]result{}
	Calls int
	Hits  int
)

type result struct {
	specs []*loader.PackageSpec
	err   error
}

// Graph replaces loader.Graph in package runner.
func Graph(cfg *packages.Config, patterns ...string) ([]*loader.PackageSpec, error) {
	// the working directory of a simulated process (linter.run leaves
	// packages.Config.Dir empty: the OS process' cwd)
	if ctx := verifsim.CurProcContext(); ctx != nil && ctx.Dir != "" && (cfg == nil || cfg.Dir == "") {
		c2 := packages.Config{}
		if cfg != nil {
			c2 = *cfg
		}
		c2.Dir = ctx.Dir
		cfg = &c2
	}
	if State == "" {
		return loader.Graph(cfg, patterns...)
	}
	base := map[string]bool{}
	for _, e := range BaseEnv {
		base[e] = true
	}
	var env []string
	var flags []string
	tests := false
	dir := ""
	if cfg != nil {
		for _, e := range cfg.Env {
			if !base[e] {
				env = append(env, e)
			}
		}
		sort.Strings(env)
		flags = cfg.BuildFlags
		tests = cfg.Tests
		dir = cfg.Dir
	}
	key := fmt.Sprintf("%s\x00%s\x00%v\x00%s\x00%s\x00%s", State, dir, tests, strings.Join(flags, "\x01"), strings.Join(env, "\x01"), strings.Join(patterns, "\x01"))
	mu.Lock()
	Calls++
	r, ok := memo[key]
	if ok {
		Hits++
	}
	mu.Unlock()
	if ok {
		return r.specs, r.err
	}
	// A list of ./pN patterns selects a subset of the roots of ./... : derive
	// it from the memoised full graph instead of paying for another `go list`
	// (each costs 0.3-0.6 CPU-seconds in this sandbox). The derivation is
	// validated against the real loader.Graph when Validate is set.
	if sub := subsetOf(patterns); sub != nil {
		fullKey := fmt.Sprintf("%s\x00%s\x00%v\x00%s\x00%s\x00%s", State, dir, tests, strings.Join(flags, "\x01"), strings.Join(env, "\x01"), "./...")
		mu.Lock()
		full, ok := memo[fullKey]
		mu.Unlock()
		if ok && full.err == nil {
			derived := derive(full.specs, sub)
			if derived != nil {
				Derived++
				if Validate {
					real, err := loader.Graph(cfg, patterns...)
					if err != nil || !sameRoots(real, derived) {
						panic(fmt.Sprintf("verifhook: derived package graph for %v differs from go list's (err=%v): %v vs %v", patterns, err, ids(real), ids(derived)))
					}
				}
				mu.Lock()
				memo[key] = result{derived, nil}
				mu.Unlock()
				return derived, nil
			}
		}
	}
	specs, err := loader.Graph(cfg, patterns...)
	mu.Lock()
	memo[key] = result{specs, err}
	mu.Unlock()
	return specs, err
}

// Derived counts graphs derived from a memoised ./... graph; Validate makes
// every derivation be compared with the real thing.
var (
	Derived  int
	Validate bool
)

func subsetOf(patterns []string) []string {
	if len(patterns) == 0 {
		return nil
	}
	var out []string
	for _, p := range patterns {
		if !strings.HasPrefix(p, "./") || strings.ContainsAny(p[2:], "./*") || p == "./..." {
			return nil
		}
		out = append(out, p[2:])
	}
	return out
}

func derive(full []*loader.PackageSpec, dirs []string) []*loader.PackageSpec {
	var out []*loader.PackageSpec
	seen := map[*loader.PackageSpec]bool{}
	for _, d := range dirs {
		found := false
		for _, s := range full {
			pp := s.PkgPath
			if strings.HasSuffix(pp, "/"+d) || strings.HasSuffix(pp, "/"+d+"_test") || strings.HasSuffix(pp, "/"+d+".test") {
				found = true
				if !seen[s] {
					seen[s] = true
					out = append(out, s)
				}
			}
		}
		if !found {
			return nil
		}
	}
	sort.SliceStable(out, func(i, j int) bool { return out[i].ID < out[j].ID })
	return out
}

func ids(specs []*loader.PackageSpec) []string {
	var out []string
	for _, s := range specs {
		out = append(out, fmt.Sprintf("%s:%x", s.ID, s.Hash[:4]))
	}
	return out
}

func sameRoots(a, b []*loader.PackageSpec) bool {
	x, y := ids(a), ids(b)
	sort.Strings(x)
	sort.Strings(y)
	return strings.Join(x, "|") == strings.Join(y, "|")
}

// Forget drops the memo (used between unrelated workloads to bound memory).
func Forget() {
	mu.Lock()
	memo = map[string]result{}
	mu.Unlock()
}
