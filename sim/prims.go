package verifsim

import (
	"fmt"
	"sort"
	"sync"
	"time"
	"unsafe"
)

// This file contains what instrumented code calls. With no simulation
// installed every function degenerates to the plain operation.

// ---------------------------------------------------------------------------
// go statements

// Go replaces a go statement.
func Go(f func()) {
	s := curp.Load()
	if s == nil {
		go f()
		return
	}
	s.spawn(f)
}

//go:norace
func (s *Sim) spawn(f func()) {
	t := &s.tasks[s.running]
	if t.killed {
		return
	}
	nt := s.newTask(t.proc, f)
	s.start(nt)
}

// Yield is a plain scheduling point (placed before atomic operations and
// other visible operations that never block).
//
//go:norace
func Yield() {
	s := curp.Load()
	if s == nil {
		return
	}
	t := &s.tasks[s.running]
	if t.killed {
		return
	}
	t.wait = wNone
	s.reschedule()
}

// Y evaluates to its argument and is a scheduling point; used to wrap calls
// of sync/atomic functions in expression position.
func Y[T any](v T) T {
	Yield()
	return v
}

// ---------------------------------------------------------------------------
// channels

type chanMode int

const (
	cmSkip    chanMode = iota // killed task: do nothing
	cmActive                  // perform the real operation, we hold the token (may block: the rendezvous partner is on its way)
	cmPassive                 // perform the real operation, then re-park
	cmDefault                 // select: take the default branch
	cmMust                    // perform the real operation; by the model it cannot block (buffered or closed channel)
)

// mismatch reports a disagreement between the kernel's model of a channel
// and the real channel (a kernel defect, or a channel also used by code that
// is not instrumented).
func mismatch(op string, ch any, length, capacity int) {
	s := curp.Load()
	panic(fmt.Sprintf("verifsim: model/real channel mismatch in %s: real len=%d cap=%d; %s", op, length, capacity, s.describe()))
}

//go:norace
func (s *Sim) describe() string {
	d := fmt.Sprintf("running task %d, step %d;", s.running, s.steps)
	for i := s.head; i >= 0; i = s.tasks[i].next {
		k := &s.tasks[i]
		d += fmt.Sprintf(" [task %d proc %d wait=%s obj#%d killed=%v rdv=%v]", k.id, k.proc, waitNames[k.wait], s.objSeq(k), k.killed, k.rdv)
	}
	for i := range s.objs {
		o := &s.objs[i]
		if o.kind == oChan {
			d += fmt.Sprintf(" {chan#%d n=%d cap=%d closed=%d sendW=%d recvW=%d}", o.seq, o.n, o.capa, o.state, o.nSendW, o.nRecvW)
		}
	}
	return d
}

//go:norace
func (s *Sim) chanObj(p unsafe.Pointer, capa, n int) (int32, *object) {
	before := s.nobjs
	oi := s.obj(p, oChan)
	o := &s.objs[oi]
	if s.nobjs != before {
		o.capa = int32(capa)
		o.n = int32(n)
	}
	return oi, o
}

// partner picks a task parked on channel oi with the given wait kind.
//
//go:norace
func (s *Sim) partner(oi int32, kind waitKind) *task {
	n := 0
	for i := s.head; i >= 0; i = s.tasks[i].next {
		k := &s.tasks[i]
		if k.wait == kind && k.obj == oi && !k.killed && k.id != s.running {
			s.cand[n] = k.id
			n++
		}
	}
	if n == 0 {
		return nil
	}
	d := 0
	if n > 1 {
		d = s.choose(n, genPartner)
	}
	return &s.tasks[s.cand[d]]
}

//go:norace
func genPartner(s *Sim, n int) int {
	if s.cfg.Strategy == StratFIFO {
		return 0
	}
	return int(s.rand() % uint64(n))
}

// rendezvous releases the passive partner of an unbuffered channel operation.
//
//go:norace
func (s *Sim) rendezvous(o *object, p *task) {
	if p.wait == wSend {
		o.nSendW--
	} else {
		o.nRecvW--
	}
	p.wait = wNone
	p.rdv = true
	s.ev(evRdv, uint64(o.seq), uint64(s.running), uint64(p.id))
	s.open(p)
}

// reparkTask is called by the passive side after its half of the rendezvous.
//
//go:norace
func (s *Sim) reparkTask(t *task) {
	t.rdv = false
	s.park(t)
	if t.killed {
		s.goexit(t)
	}
}

//go:norace
func (s *Sim) preSend(p unsafe.Pointer, capa, n int, try bool) (chanMode, *task) {
	t := &s.tasks[s.running]
	if t.killed {
		return cmSkip, t
	}
	oi, o := s.chanObj(p, capa, n)
	if try {
		t.wait = wNone
		s.reschedule()
		if o.state == 1 {
			return cmMust, t
		}
		if o.capa > 0 {
			if o.n < o.capa {
				o.n++
				return cmMust, t
			}
			return cmDefault, t
		}
		if q := s.partner(oi, wRecv); q != nil {
			s.rendezvous(o, q)
			return cmActive, t
		}
		return cmDefault, t
	}
	t.wait, t.obj = wSend, oi
	o.nSendW++
	s.reschedule()
	if t.rdv {
		return cmPassive, t
	}
	o.nSendW--
	t.wait = wNone
	if o.state == 1 {
		return cmMust, t
	}
	if o.capa > 0 {
		o.n++
		return cmMust, t
	}
	q := s.partner(oi, wRecv)
	if q == nil {
		panic("verifsim: send enabled without receiver")
	}
	s.rendezvous(o, q)
	return cmActive, t
}

//go:norace
func (s *Sim) preRecv(p unsafe.Pointer, capa, n int, try bool) (chanMode, *task) {
	t := &s.tasks[s.running]
	if t.killed {
		return cmSkip, t
	}
	oi, o := s.chanObj(p, capa, n)
	if try {
		t.wait = wNone
		s.reschedule()
		if o.capa > 0 && o.n > 0 {
			o.n--
			return cmMust, t
		}
		if o.state == 1 {
			return cmMust, t
		}
		if o.capa == 0 {
			if q := s.partner(oi, wSend); q != nil {
				s.rendezvous(o, q)
				return cmActive, t
			}
		}
		return cmDefault, t
	}
	t.wait, t.obj = wRecv, oi
	o.nRecvW++
	s.reschedule()
	if t.rdv {
		return cmPassive, t
	}
	o.nRecvW--
	t.wait = wNone
	if o.capa > 0 && o.n > 0 {
		o.n--
		return cmMust, t
	}
	if o.state == 1 {
		return cmMust, t
	}
	q := s.partner(oi, wSend)
	if q == nil {
		panic("verifsim: recv enabled without sender")
	}
	s.rendezvous(o, q)
	return cmActive, t
}

func chanPtr[T any](ch chan T) unsafe.Pointer {
	return *(*unsafe.Pointer)(unsafe.Pointer(&ch))
}

// Send replaces `ch <- v`.
func Send[T any](ch chan<- T, v T) {
	s := curp.Load()
	if s == nil {
		ch <- v
		return
	}
	mode, t := s.preSend(*(*unsafe.Pointer)(unsafe.Pointer(&ch)), cap(ch), len(ch), false)
	switch mode {
	case cmSkip:
	case cmMust:
		if s.sendClosed(*(*unsafe.Pointer)(unsafe.Pointer(&ch))) {
			ch <- v // panics, as in Go
			return
		}
		select {
		case ch <- v:
		default:
			mismatch("send", ch, len(ch), cap(ch))
		}
	case cmActive:
		ch <- v
	case cmPassive:
		ch <- v
		s.reparkTask(t)
	}
}

//go:norace
func (s *Sim) sendClosed(p unsafe.Pointer) bool {
	return s.objs[s.obj(p, oChan)].state == 1
}

// TrySend replaces `select { case ch <- v: A default: B }`; it reports
// whether the send happened.
func TrySend[T any](ch chan<- T, v T) bool {
	s := curp.Load()
	if s == nil {
		select {
		case ch <- v:
			return true
		default:
			return false
		}
	}
	mode, _ := s.preSend(*(*unsafe.Pointer)(unsafe.Pointer(&ch)), cap(ch), len(ch), true)
	switch mode {
	case cmMust:
		if s.sendClosed(*(*unsafe.Pointer)(unsafe.Pointer(&ch))) {
			ch <- v
			return true
		}
		select {
		case ch <- v:
		default:
			mismatch("select-send", ch, len(ch), cap(ch))
		}
		return true
	case cmActive:
		ch <- v
		return true
	}
	return false
}

// SendTo is the curried form the rewriter emits: `ch <- v` becomes
// verifsim.SendTo(ch)(v), so that v is converted to the element type by
// ordinary assignability (type inference would otherwise reject an
// interface-typed channel with a concrete value).
func SendTo[T any](ch chan<- T) func(T) {
	return func(v T) { Send(ch, v) }
}

// TrySendTo is the curried form of TrySend.
func TrySendTo[T any](ch chan<- T) func(T) bool {
	return func(v T) bool { return TrySend(ch, v) }
}

// Recv replaces `<-ch` and `v := <-ch`.
func Recv[T any](ch <-chan T) T {
	v, _ := Recv2(ch)
	return v
}

// Recv2 replaces `v, ok := <-ch` and is the basis of range-over-channel.
func Recv2[T any](ch <-chan T) (T, bool) {
	s := curp.Load()
	if s == nil {
		v, ok := <-ch
		return v, ok
	}
	mode, t := s.preRecv(*(*unsafe.Pointer)(unsafe.Pointer(&ch)), cap(ch), len(ch), false)
	switch mode {
	case cmMust:
		select {
		case v, ok := <-ch:
			return v, ok
		default:
			mismatch("receive", ch, len(ch), cap(ch))
		}
	case cmActive:
		v, ok := <-ch
		return v, ok
	case cmPassive:
		v, ok := <-ch
		s.reparkTask(t)
		return v, ok
	}
	var zero T
	return zero, false
}

// TryRecv replaces `select { case v, ok := <-ch: A default: B }`; selected
// reports whether the receive case was taken.
func TryRecv[T any](ch <-chan T) (v T, ok bool, selected bool) {
	s := curp.Load()
	if s == nil {
		select {
		case v, ok = <-ch:
			return v, ok, true
		default:
			return v, false, false
		}
	}
	mode, _ := s.preRecv(*(*unsafe.Pointer)(unsafe.Pointer(&ch)), cap(ch), len(ch), true)
	switch mode {
	case cmMust:
		select {
		case v, ok = <-ch:
			return v, ok, true
		default:
			mismatch("select-receive", ch, len(ch), cap(ch))
		}
	case cmActive:
		v, ok = <-ch
		return v, ok, true
	}
	return v, false, false
}

// Close replaces close(ch).
func Close[T any](ch chan<- T) {
	s := curp.Load()
	if s == nil {
		close(ch)
		return
	}
	if s.preClose(*(*unsafe.Pointer)(unsafe.Pointer(&ch)), cap(ch), len(ch)) {
		close(ch)
	}
}

//go:norace
func (s *Sim) preClose(p unsafe.Pointer, capa, n int) bool {
	t := &s.tasks[s.running]
	if t.killed {
		return false
	}
	_, o := s.chanObj(p, capa, n)
	o.state = 1
	return true
}

// ForeignChan declares that ch is fed from outside the simulation (e.g. by
// os/signal); simulated receivers on it never become enabled.
func ForeignChan[T any](ch chan T) {
	s := curp.Load()
	if s == nil {
		return
	}
	s.markForeign(chanPtr(ch), cap(ch), len(ch))
}

//go:norace
func (s *Sim) markForeign(p unsafe.Pointer, capa, n int) {
	_, o := s.chanObj(p, capa, n)
	o.foreign = true
}

// ---------------------------------------------------------------------------
// sync.Mutex

// Lock replaces mu.Lock().
func Lock(mu *sync.Mutex) {
	s := curp.Load()
	if s == nil {
		mu.Lock()
		return
	}
	if s.preLock(unsafe.Pointer(mu)) {
		mu.Lock()
	}
}

//go:norace
func (s *Sim) preLock(p unsafe.Pointer) bool {
	t := &s.tasks[s.running]
	if t.killed {
		return false
	}
	oi := s.obj(p, oMutex)
	t.wait, t.obj = wLock, oi
	s.reschedule()
	t.wait = wNone
	s.objs[oi].owner = t.id
	return true
}

// Unlock replaces mu.Unlock().
func Unlock(mu *sync.Mutex) {
	s := curp.Load()
	if s == nil {
		mu.Unlock()
		return
	}
	if s.preUnlock(unsafe.Pointer(mu)) {
		mu.Unlock()
	}
}

//go:norace
func (s *Sim) preUnlock(p unsafe.Pointer) bool {
	t := &s.tasks[s.running]
	o := &s.objs[s.obj(p, oMutex)]
	if t.killed {
		if o.owner == t.id {
			o.owner = -1
			return true
		}
		return false
	}
	o.owner = -1
	return true
}

// ---------------------------------------------------------------------------
// sync.RWMutex

// RWLock replaces rw.Lock().
func RWLock(rw *sync.RWMutex) {
	s := curp.Load()
	if s == nil {
		rw.Lock()
		return
	}
	if s.preRW(unsafe.Pointer(rw), wWLock) {
		rw.Lock()
	}
}

// RWUnlock replaces rw.Unlock().
func RWUnlock(rw *sync.RWMutex) {
	s := curp.Load()
	if s == nil {
		rw.Unlock()
		return
	}
	if s.postRW(unsafe.Pointer(rw), true) {
		rw.Unlock()
	}
}

// RLock replaces rw.RLock().
func RLock(rw *sync.RWMutex) {
	s := curp.Load()
	if s == nil {
		rw.RLock()
		return
	}
	if s.preRW(unsafe.Pointer(rw), wRLock) {
		rw.RLock()
	}
}

// RUnlock replaces rw.RUnlock().
func RUnlock(rw *sync.RWMutex) {
	s := curp.Load()
	if s == nil {
		rw.RUnlock()
		return
	}
	if s.postRW(unsafe.Pointer(rw), false) {
		rw.RUnlock()
	}
}

//go:norace
func (s *Sim) preRW(p unsafe.Pointer, kind waitKind) bool {
	t := &s.tasks[s.running]
	if t.killed {
		return false
	}
	oi := s.obj(p, oRWMutex)
	t.wait, t.obj = kind, oi
	s.reschedule()
	t.wait = wNone
	o := &s.objs[oi]
	if kind == wWLock {
		o.owner = t.id
	} else {
		o.n++
	}
	return true
}

//go:norace
func (s *Sim) postRW(p unsafe.Pointer, write bool) bool {
	t := &s.tasks[s.running]
	o := &s.objs[s.obj(p, oRWMutex)]
	if write {
		if t.killed && o.owner != t.id {
			return false
		}
		o.owner = -1
		return true
	}
	if o.n <= 0 {
		return !t.killed // let the real RUnlock report the misuse
	}
	o.n--
	return true
}

// ---------------------------------------------------------------------------
// sync.Once

// OnceDo replaces once.Do(f).
func OnceDo(o *sync.Once, f func()) {
	s := curp.Load()
	if s == nil {
		o.Do(f)
		return
	}
	switch s.preOnce(unsafe.Pointer(o)) {
	case 0:
		return
	case 1:
		defer s.postOnce(unsafe.Pointer(o))
		o.Do(f)
	case 2:
		o.Do(f)
	}
}

//go:norace
func (s *Sim) preOnce(p unsafe.Pointer) int {
	t := &s.tasks[s.running]
	if t.killed {
		return 0
	}
	oi := s.obj(p, oOnce)
	t.wait, t.obj = wOnce, oi
	s.reschedule()
	t.wait = wNone
	o := &s.objs[oi]
	if o.state == 0 {
		o.state = 1
		o.owner = t.id
		return 1
	}
	return 2
}

//go:norace
func (s *Sim) postOnce(p unsafe.Pointer) {
	o := &s.objs[s.obj(p, oOnce)]
	o.state = 2
	o.owner = -1
}

// ---------------------------------------------------------------------------
// sync.WaitGroup

// WGAdd replaces wg.Add(n).
func WGAdd(wg *sync.WaitGroup, n int) {
	s := curp.Load()
	if s == nil {
		wg.Add(n)
		return
	}
	s.wgAdd(unsafe.Pointer(wg), n)
	wg.Add(n)
}

// WGDone replaces wg.Done().
func WGDone(wg *sync.WaitGroup) { WGAdd(wg, -1) }

//go:norace
func (s *Sim) wgAdd(p unsafe.Pointer, n int) {
	o := &s.objs[s.obj(p, oWG)]
	o.n += int32(n)
}

// WGWait replaces wg.Wait().
func WGWait(wg *sync.WaitGroup) {
	s := curp.Load()
	if s == nil {
		wg.Wait()
		return
	}
	if s.preWGWait(unsafe.Pointer(wg)) {
		wg.Wait()
	}
}

//go:norace
func (s *Sim) preWGWait(p unsafe.Pointer) bool {
	t := &s.tasks[s.running]
	if t.killed {
		return false
	}
	oi := s.obj(p, oWG)
	t.wait, t.obj = wWG, oi
	s.reschedule()
	t.wait = wNone
	return true
}

// ---------------------------------------------------------------------------
// map iteration order

// MapKeys returns the keys of m. Under simulation they are sorted by the
// canonical key and then permuted by a value drawn from the tape, so that
// iteration order is a function of the tape and not of the runtime.
func MapKeys[K comparable, V any](m map[K]V) []K {
	keys := make([]K, 0, len(m))
	for k := range m {
		keys = append(keys, k)
	}
	s := curp.Load()
	if s == nil || len(keys) < 2 {
		return keys
	}
	strs := make([]string, len(keys))
	for i, k := range keys {
		strs[i] = KeyOf(k)
	}
	idx := make([]int, len(keys))
	for i := range idx {
		idx[i] = i
	}
	sort.SliceStable(idx, func(a, b int) bool { return strs[idx[a]] < strs[idx[b]] })
	ties := false
	for i := 1; i < len(idx); i++ {
		if strs[idx[i]] == strs[idx[i-1]] {
			ties = true
		}
	}
	r := s.mapDraw(len(keys), ties)
	if r != 0 {
		z := uint64(r) * 0x9E3779B97F4A7C15
		for i := len(idx) - 1; i > 0; i-- {
			z += 0x9E3779B97F4A7C15
			x := z
			x = (x ^ (x >> 30)) * 0xBF58476D1CE4E5B9
			x = (x ^ (x >> 27)) * 0x94D049BB133111EB
			x ^= x >> 31
			j := int(x % uint64(i+1))
			idx[i], idx[j] = idx[j], idx[i]
		}
	}
	out := make([]K, len(keys))
	for i, j := range idx {
		out[i] = keys[j]
	}
	return out
}

//go:norace
func (s *Sim) mapDraw(n int, ties bool) uint32 {
	if ties {
		s.uncanonical++
	}
	t := &s.tasks[s.running]
	if t.killed || !s.cfg.MapOrder {
		return 0
	}
	var d int
	if s.cfg.Strategy == StratFIFO && !s.replay {
		d = s.choose(1<<30, genZero)
	} else {
		d = s.choose(1<<30, genUniform)
	}
	s.ev(evMap, uint64(n), uint64(d), 0)
	return uint32(d)
}

// ---------------------------------------------------------------------------
// clock, worker count, randomness

// Now replaces time.Now.
//
//go:norace
func Now() time.Time {
	s := curp.Load()
	if s == nil {
		return time.Now()
	}
	// Simulated time flows: 100 microseconds per scheduling step on top of
	// the explicit jumps, so that what happens later also carries a later
	// timestamp (a file stored after another process took its "now" is
	// newer than that "now"). A function of the schedule only.
	return s.now.Add(time.Duration(s.steps) * 100 * time.Microsecond)
}

// Advance moves the simulated clock.
//
//go:norace
func Advance(d time.Duration) {
	s := curp.Load()
	if s == nil {
		return
	}
	s.now = s.now.Add(d)
	s.fired[FClock]++
	s.ev(evClock, uint64(d), 0, 0)
}

var procsOverride int

// SetPassthroughProcs sets what Procs returns when no simulation runs
// (0: the real GOMAXPROCS).
func SetPassthroughProcs(n int) { procsOverride = n }

// Procs replaces runtime.GOMAXPROCS(0).
//
//go:norace
func Procs() int {
	s := curp.Load()
	if s == nil || s.cfg.Procs <= 0 {
		if procsOverride > 0 {
			return procsOverride
		}
		return realProcs()
	}
	return s.cfg.Procs
}

// RandIntn replaces math/rand.Intn.
//
//go:norace
func RandIntn(n int) int {
	s := curp.Load()
	if s == nil {
		return realRandIntn(n)
	}
	v := int(s.rand() % uint64(n))
	s.ev(evChoice, uint64(n), uint64(v), 1)
	return v
}

// ---------------------------------------------------------------------------
// processes

// Proc identifies a simulated process.
type Proc int32

// Spawn starts a new simulated process whose main task runs f. Only the
// disk is shared between processes.
func Spawn(name string, f func()) Proc {
	s := curp.Load()
	if s == nil {
		panic("verifsim: Spawn without simulation")
	}
	return s.spawnProc(name, f)
}

//go:norace
func (s *Sim) spawnProc(name string, f func()) Proc {
	if s.nprocs >= maxProcs {
		panic("verifsim: too many processes")
	}
	id := s.nprocs
	s.nprocs++
	s.procs[id] = process{id: id, name: name, alive: true}
	t := s.newTask(id, f)
	s.procs[id].main = t.id
	s.start(t)
	return Proc(id)
}

// Join blocks until every task of p is gone.
//
//go:norace
func Join(p Proc) {
	s := curp.Load()
	t := &s.tasks[s.running]
	if t.killed {
		return
	}
	t.wait, t.obj = wJoin, int32(p)
	s.reschedule()
	t.wait = wNone
}

// Quiesce blocks until the calling task is the only live task of its
// process (everything it started has run to completion).
//
//go:norace
func Quiesce() {
	s := curp.Load()
	if s == nil {
		return
	}
	t := &s.tasks[s.running]
	if t.killed {
		return
	}
	t.wait = wQuiesce
	s.reschedule()
	t.wait = wNone
}

// Crashed reports whether p was killed by a crash fault or a panic.
//
//go:norace
func Crashed(p Proc) bool { return curp.Load().procs[p].crashed }

// CurProc returns the index of the calling task's process.
//
//go:norace
func CurProc() int {
	s := curp.Load()
	if s == nil {
		return 0
	}
	return int(s.tasks[s.running].proc)
}

// Killed reports whether the calling task is being torn down; simos uses it
// to ignore file system calls made by deferred functions of a dead process.
//
//go:norace
func Killed() bool {
	s := curp.Load()
	if s == nil {
		return false
	}
	return s.tasks[s.running].killed
}

// FSOp is called by simos at the start of every file system operation. It is
// a scheduling point; it returns the index of the operation within the
// process and the fault planned for it, if any.
//
//go:norace
func FSOp() (int, *Fault) {
	s := curp.Load()
	t := &s.tasks[s.running]
	t.wait = wNone
	s.reschedule()
	p := &s.procs[t.proc]
	op := int(p.fsOps)
	p.fsOps++
	for i := range s.cfg.Faults {
		f := &s.cfg.Faults[i]
		if f.Proc == int(t.proc) && f.Op == op {
			return op, f
		}
	}
	return op, nil
}

// FSOps returns the number of file system operations process p has issued.
//
//go:norace
func FSOps(p Proc) int { return int(curp.Load().procs[p].fsOps) }

// CrashCurrent kills the calling task's process at this point. It does not
// return.
//
//go:norace
func CrashCurrent() {
	s := curp.Load()
	t := &s.tasks[s.running]
	p := &s.procs[t.proc]
	p.crashed = true
	s.killProc(t.proc, nil)
	s.goexit(t)
}

// ProcContext is what an OS process gets from its environment and a
// simulated process has to be told: working directory, cache directory
// (STATICCHECK_CACHE), additions to the environment, and the identity of
// the binary. The entry point of a simulated linter process sets it; the
// redirected calls in the code under test (cache.Default, os.Environ,
// computeSalt, the package loader's working directory) read it.
type ProcContext struct {
	Dir      string
	CacheDir string
	Env      []string
	Salt     []byte
}

var (
	procCtxMu sync.Mutex
	procCtx   = map[int]*ProcContext{}
)

// SetProcContext sets (nil: clears) the context of the calling simulated
// process (process 0 outside a simulation).
func SetProcContext(c *ProcContext) {
	p := CurProc()
	procCtxMu.Lock()
	if c == nil {
		delete(procCtx, p)
	} else {
		procCtx[p] = c
	}
	procCtxMu.Unlock()
}

// CurProcContext returns the context of the calling simulated process.
func CurProcContext() *ProcContext {
	p := CurProc()
	procCtxMu.Lock()
	c := procCtx[p]
	procCtxMu.Unlock()
	return c
}
