package verifsim

import (
	"math/rand"
	"os"
	"runtime"
	"strconv"
)

func realProcs() int { return runtime.GOMAXPROCS(0) }

func realRandIntn(n int) int { return rand.Intn(n) }

// VERIF_PROCS fixes what Procs() returns outside a simulation, before any
// instrumented package's init runs (go/ir sizes its package-level cpuLimit
// semaphore from it).
func init() {
	if v := os.Getenv("VERIF_PROCS"); v != "" {
		if n, err := strconv.Atoi(v); err == nil && n > 0 {
			procsOverride = n
		}
	}
}
