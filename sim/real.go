package verifsim

import (
	"math/rand"
	"os"
	"runtime"
	"strconv"
)

func realProcs() int { return runtime.GOMAXPROCS(0) }

func realRandIntn(n int) int { return rand.Intn(n) }

// VERIF_PROCS fixes what Procs() returns outside a simulation, before any
// instrumented package's init runs (go/ir sizes its package-level cpuLimit
// semaphore from it).
// VERIF_RACE_GATES=1 forces the race-detector-invisible gates in every run
// (gate-equivalence self-test, race tier).
var forceRaceGates = os.Getenv("VERIF_RACE_GATES") == "1"

func init() {
	if v := os.Getenv("VERIF_PROCS"); v != "" {
		if n, err := strconv.Atoi(v); err == nil && n > 0 {
			procsOverride = n
		}
	}
}
