package verifsim

import (
	"math/rand"
	"runtime"
)

func realProcs() int { return runtime.GOMAXPROCS(0) }

func realRandIntn(n int) int { return rand.Intn(n) }
