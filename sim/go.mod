module honnef.co/go/tools/internal/verifsim

go 1.26.0
