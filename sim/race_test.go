package verifsim

import (
	"os"
	"sync"
	"testing"
)

// With race gates, correctly synchronised programs must produce no report.
func TestRaceGatesClean(t *testing.T) {
	for seed := uint64(0); seed < 40; seed++ {
		var mu sync.Mutex
		var wg sync.WaitGroup
		ch := make(chan int)
		buf := make(chan int, 2)
		var once sync.Once
		n := 0
		c := cfgFor(seed)
		c.RaceGates = true
		r := Run(c, func() {
			for i := 0; i < 4; i++ {
				WGAdd(&wg, 1)
				Go(func() {
					OnceDo(&once, func() { n = 100 })
					Lock(&mu)
					n++
					Unlock(&mu)
					Send(buf, i)
					Send(ch, Recv(buf))
					WGDone(&wg)
				})
			}
			for i := 0; i < 4; i++ {
				Recv(ch)
			}
			WGWait(&wg)
		})
		mustClean(t, r)
		if n != 104 {
			t.Fatalf("n=%d", n)
		}
	}
}

// Planted race: must be reported by the detector when VERIF_PLANT=1.
func TestRaceGatesPlanted(t *testing.T) {
	if os.Getenv("VERIF_PLANT") == "" {
		t.Skip()
	}
	var wg sync.WaitGroup
	n := 0
	c := cfgFor(2)
	c.RaceGates = true
	Run(c, func() {
		for i := 0; i < 3; i++ {
			WGAdd(&wg, 1)
			Go(func() {
				Yield()
				n++ // unsynchronised
				Yield()
				WGDone(&wg)
			})
		}
		WGWait(&wg)
	})
	_ = n
}
