package simos

import (
	"errors"
	"fmt"
	"io"
	"os"
	"path/filepath"
	"sort"
	"strings"
	"syscall"
	"testing"
	"time"

	"honnef.co/go/tools/internal/verifsim"
)

type rng uint64

func (r *rng) next() uint64 {
	*r += 0x9E3779B97F4A7C15
	z := uint64(*r)
	z = (z ^ (z >> 30)) * 0xBF58476D1CE4E5B9
	z = (z ^ (z >> 27)) * 0x94D049BB133111EB
	return z ^ (z >> 31)
}
func (r *rng) n(n int) int { return int(r.next() % uint64(n)) }

func errClass(err error) string {
	if err == nil {
		return "ok"
	}
	if err == io.EOF {
		return "EOF"
	}
	var en syscall.Errno
	if errors.As(err, &en) {
		return "errno:" + en.Error()
	}
	if errors.Is(err, os.ErrClosed) {
		return "closed"
	}
	return "other:" + err.Error()
}

// interpret runs a seeded op sequence through the simos API and returns the
// trace of results. The same function runs against the simulated disk
// (inside verifsim.Run) and the real one (pass-through).
func interpret(root string, seed uint64, nops int) []string {
	r := rng(seed)
	var trace []string
	names := []string{"a", "b", "d1/x", "d1/y", "d2/z", "d1", "d2", "d1/sub/q"}
	files := map[int]*File{}
	nextFd := 0
	emit := func(f string, a ...any) { trace = append(trace, fmt.Sprintf(f, a...)) }
	path := func() string { return filepath.Join(root, names[r.n(len(names))]) }
	flags := []int{os.O_RDONLY, os.O_RDWR, os.O_WRONLY, os.O_RDWR | os.O_CREATE, os.O_WRONLY | os.O_CREATE, os.O_RDWR | os.O_CREATE | os.O_EXCL, os.O_RDWR | os.O_CREATE | os.O_TRUNC, os.O_WRONLY | os.O_TRUNC}
	t0 := time.Unix(1_600_000_000, 0)
	for i := 0; i < nops; i++ {
		switch r.n(16) {
		case 0:
			p := path()
			err := MkdirAll(p, 0777)
			emit("mkdirall %s %s", p[len(root):], errClass(err))
		case 1, 2, 3:
			p := path()
			fl := flags[r.n(len(flags))]
			f, err := OpenFile(p, fl, 0666)
			emit("open %s %#x %s", p[len(root):], fl, errClass(err))
			if err == nil {
				files[nextFd] = f
				nextFd++
			}
		case 4, 5:
			if len(files) == 0 {
				continue
			}
			fd := pickFd(&r, files)
			n := r.n(40)
			data := make([]byte, n)
			for j := range data {
				data[j] = byte('a' + r.n(26))
			}
			k, err := files[fd].Write(data)
			if err != nil {
				emit("write fd%d n=%d -> %d err", fd, n, k) // EBADF vs. EISDIR wording differs on directories
			} else {
				emit("write fd%d n=%d -> %d ok", fd, n, k)
			}
		case 6, 7:
			if len(files) == 0 {
				continue
			}
			fd := pickFd(&r, files)
			buf := make([]byte, r.n(50))
			k, err := files[fd].Read(buf)
			if err != nil && err != io.EOF {
				emit("read fd%d -> err", fd)
			} else {
				emit("read fd%d n=%d -> %d %q %s", fd, len(buf), k, buf[:k], errClass(err))
			}
		case 8:
			if len(files) == 0 {
				continue
			}
			fd := pickFd(&r, files)
			off := int64(r.n(60))
			wh := r.n(3)
			pos, err := files[fd].Seek(off, wh)
			if fi, _ := files[fd].Stat(); fi != nil && fi.IsDir() {
				continue // seeking directories is unspecified
			}
			emit("seek fd%d %d %d -> %d %s", fd, off, wh, pos, errClass(err))
		case 9:
			if len(files) == 0 {
				continue
			}
			fd := pickFd(&r, files)
			sz := int64(r.n(80))
			err := files[fd].Truncate(sz)
			if err != nil {
				emit("ftruncate fd%d %d -> err", fd, sz)
			} else {
				emit("ftruncate fd%d %d -> ok", fd, sz)
			}
		case 10:
			if len(files) == 0 {
				continue
			}
			fd := pickFd(&r, files)
			err := files[fd].Close()
			emit("close fd%d %s", fd, errClass(err))
			delete(files, fd)
		case 11:
			p := path()
			fi, err := Stat(p)
			if err != nil {
				emit("stat %s %s", p[len(root):], errClass(err))
			} else if fi.IsDir() {
				emit("stat %s dir", p[len(root):])
			} else {
				emit("stat %s size=%d", p[len(root):], fi.Size())
			}
		case 12:
			p := path()
			err := Remove(p)
			emit("remove %s %s", p[len(root):], errClass(err))
		case 13:
			p, q := path(), path()
			if strings.HasPrefix(q, p) || strings.HasPrefix(p, q) {
				continue
			}
			err := Rename(p, q)
			emit("rename %s %s %s", p[len(root):], q[len(root):], errClass(err))
		case 14:
			p := path()
			mt := t0.Add(time.Duration(r.n(1000)) * time.Hour)
			err := Chtimes(p, mt, mt)
			emit("chtimes %s %s", p[len(root):], errClass(err))
			if err == nil {
				fi, err := Stat(p)
				emit("  mtime ok=%v equal=%v", err == nil, err == nil && fi.ModTime().Equal(mt))
			}
		case 15:
			p := path()
			if r.n(2) == 0 {
				b, err := ReadFile(p)
				if err != nil {
					emit("readfile %s err=%v", p[len(root):], os.IsNotExist(err))
				} else {
					emit("readfile %s %q", p[len(root):], b)
				}
			} else {
				err := WriteFile(p, []byte(fmt.Sprintf("wf%d", i)), 0666)
				if err != nil {
					emit("writefile %s err", p[len(root):])
				} else {
					emit("writefile %s ok", p[len(root):])
				}
			}
		}
	}
	for _, fd := range sortedFds(files) {
		files[fd].Close()
	}
	// final tree
	for _, d := range []string{"", "d1", "d2", "d1/sub"} {
		f, err := Open(filepath.Join(root, d))
		if err != nil {
			emit("ls %q: %s", d, errClass(err))
			continue
		}
		ns, err := f.Readdirnames(-1)
		f.Close()
		sort.Strings(ns)
		emit("ls %q: %v %s", d, ns, errClass(err))
		for _, n := range ns {
			b, err := ReadFile(filepath.Join(root, d, n))
			if err == nil {
				emit("  %s = %q", n, b)
			}
		}
	}
	return trace
}

func sortedFds(files map[int]*File) []int {
	var fds []int
	for fd := range files {
		fds = append(fds, fd)
	}
	sort.Ints(fds)
	return fds
}

func pickFd(r *rng, files map[int]*File) int {
	fds := sortedFds(files)
	return fds[r.n(len(fds))]
}

func TestDifferentialAgainstRealOS(t *testing.T) {
	nseeds := 400
	if testing.Short() {
		nseeds = 60
	}
	for seed := uint64(1); seed <= uint64(nseeds); seed++ {
		root := t.TempDir()
		real := interpret(root, seed, 120)
		var sim []string
		res := verifsim.Run(verifsim.Config{Seed: seed, Strategy: verifsim.StratFIFO}, func() {
			Install(root)
			sim = interpret(root, seed, 120)
		})
		if len(res.Panics) > 0 {
			t.Fatalf("seed %d: panic %s\n%s", seed, res.Panics[0].Value, res.Panics[0].Stack)
		}
		if len(real) != len(sim) {
			t.Fatalf("seed %d: trace length %d vs %d", seed, len(real), len(sim))
		}
		for i := range real {
			if real[i] != sim[i] {
				lo := i - 8
				if lo < 0 {
					lo = 0
				}
				t.Fatalf("seed %d: step %d differs\n real: %s\n sim:  %s\ncontext:\n%s", seed, i, real[i], sim[i], strings.Join(real[lo:i], "\n"))
			}
		}
	}
}

func TestCrashAndTornWrites(t *testing.T) {
	root := "/simroot"
	var got []byte
	var survived bool
	res := verifsim.Run(verifsim.Config{Seed: 1, Strategy: verifsim.StratRandom, Faults: []verifsim.Fault{
		{Kind: "crash_write", Proc: 1, Op: 2, Arg: 3},
	}}, func() {
		fs := Install(root)
		MkdirAll(root, 0777)
		p := verifsim.Spawn("writer", func() {
			f, err := OpenFile(filepath.Join(root, "f"), os.O_RDWR|os.O_CREATE, 0666) // op 0
			if err != nil {
				panic(err)
			}
			defer f.Close()
			f.Write([]byte("hello ")) // op 1
			f.Write([]byte("world"))  // op 2: crashes after 3 bytes
			survived = true
		})
		verifsim.Join(p)
		if !verifsim.Crashed(p) {
			panic("not crashed")
		}
		got, _ = fs.Peek(filepath.Join(root, "f"))
	})
	if len(res.Panics) > 0 {
		t.Fatal(res.Panics[0].Value, res.Panics[0].Stack)
	}
	if string(got) != "hello wor" || survived {
		t.Fatalf("got %q survived=%v", got, survived)
	}
	if res.Fired["crash_write"] != 1 {
		t.Fatalf("fired: %v", res.Fired)
	}
}
