// Package simos is the simulated disk: an in-memory POSIX-like file system
// for paths below a configurable root, with every call a scheduling point
// and a fault point. Paths outside the root, and every call made while no
// simulated file system is installed, go to the real package os.
package simos

import (
	"errors"
	"io"
	"io/fs"
	"os"
	"path/filepath"
	"sort"
	"strconv"
	"strings"
	"syscall"
	"time"

	"honnef.co/go/tools/internal/verifsim"
)

type inode struct {
	dir      bool
	data     []byte
	mtime    time.Time
	mode     os.FileMode
	children map[string]*inode
	ino      int
	// what each simulated process last saw when it called Stat on this
	// file: lets a harness tell "removed after the remover had seen an old
	// mtime" from "removed although the remover saw it freshly used"
	lastStat map[int]statSeen
}

type statSeen struct {
	mtime, at time.Time
	epoch     int
}

// FS is one simulated disk.
type FS struct {
	root  string
	top   *inode
	nino  int
	epoch int
	Ops   int            // fs operations executed on simulated paths
	ByOp  map[string]int // per operation kind
	Bytes int64
	// LogOps makes the disk record every operation (harnesses use it to
	// enumerate crash points).
	LogOps bool
	Log    []OpRec
	// Removed records every successful Remove (always on: harnesses use it
	// to attribute a vanished file to the process that removed it).
	Removed []OpRec
}

// OpRec describes one executed file system operation.
type OpRec struct {
	Proc int    `json:"proc"`
	Op   int    `json:"op"`
	Kind string `json:"kind"`
	Len  int    `json:"len,omitempty"`
	Path string `json:"path,omitempty"`
	// Removed log only: how old (simulated seconds) the file's mtime was
	// when the removing process last called Stat on it; -1: it never did.
	StatAge float64 `json:"stat_age,omitempty"`
}

// Install creates an empty simulated disk for paths below root and attaches
// it to the running simulation.
func Install(root string) *FS {
	f := &FS{root: filepath.Clean(root), ByOp: map[string]int{}}
	f.top = &inode{dir: true, children: map[string]*inode{}, mode: os.ModeDir | 0777, mtime: verifsim.Now()}
	verifsim.Current().Ext = f
	return f
}

// Attach attaches an existing disk (e.g. one that survived an earlier run)
// to the running simulation.
func Attach(f *FS) {
	verifsim.Current().Ext = f
	// process numbers start again in every simulation
	f.epoch++
}

func current() *FS {
	s := verifsim.Current()
	if s == nil {
		return nil
	}
	f, _ := s.Ext.(*FS)
	return f
}

// rel returns the path components below the root, or ok=false if path is not
// on the simulated disk.
func (f *FS) rel(path string) ([]string, bool) {
	p := filepath.Clean(path)
	if p == f.root {
		return nil, true
	}
	if !strings.HasPrefix(p, f.root+string(filepath.Separator)) {
		return nil, false
	}
	return strings.Split(p[len(f.root)+1:], string(filepath.Separator)), true
}

func fsFor(path string) (*FS, []string) {
	f := current()
	if f == nil {
		return nil, nil
	}
	if !filepath.IsAbs(path) {
		return nil, nil
	}
	parts, ok := f.rel(path)
	if !ok {
		return nil, nil
	}
	return f, parts
}

func (f *FS) lookup(parts []string) (*inode, error) {
	n := f.top
	for _, p := range parts {
		if !n.dir {
			return nil, syscall.ENOTDIR
		}
		c, ok := n.children[p]
		if !ok {
			return nil, syscall.ENOENT
		}
		n = c
	}
	return n, nil
}

func (f *FS) parent(parts []string) (*inode, string, error) {
	if len(parts) == 0 {
		return nil, "", syscall.EINVAL
	}
	d, err := f.lookup(parts[:len(parts)-1])
	if err != nil {
		return nil, "", err
	}
	if !d.dir {
		return nil, "", syscall.ENOTDIR
	}
	return d, parts[len(parts)-1], nil
}

func perr(op, path string, err error) error {
	return &os.PathError{Op: op, Path: path, Err: err}
}

var errDead = errors.New("simos: process is dead")

// begin is the common prologue of an operation on a simulated path. It is a
// scheduling point. It returns the fault planned for this operation.
func (f *FS) begin(op string) *verifsim.Fault {
	return f.beginL(op, 0, "")
}

func (f *FS) beginL(op string, n int, path string) *verifsim.Fault {
	idx, fault := verifsim.FSOp()
	f.Ops++
	f.ByOp[op]++
	if f.LogOps {
		f.Log = append(f.Log, OpRec{Proc: verifsim.CurProc(), Op: idx, Kind: op, Len: n, Path: path})
	}
	if fault != nil && fault.Kind == "crash" {
		verifsim.FaultFired(verifsim.FCrash)
		verifsim.CrashCurrent()
	}
	return fault
}

func ioFault(fault *verifsim.Fault) error {
	if fault == nil {
		return nil
	}
	switch fault.Kind {
	case "eio":
		verifsim.FaultFired(verifsim.FEIO)
		return syscall.EIO
	}
	return nil
}

// passthroughYield is the scheduling point for operations that go to the
// real file system while a simulation is running without a simulated disk
// (race tier).
func passthroughYield() {
	if verifsim.Active() && current() == nil {
		verifsim.Yield()
	}
}

// ---------------------------------------------------------------------------
// FileInfo

type fileInfo struct {
	name  string
	size  int64
	mode  os.FileMode
	mtime time.Time
	dir   bool
}

func (fi fileInfo) Name() string       { return fi.name }
func (fi fileInfo) Size() int64        { return fi.size }
func (fi fileInfo) Mode() os.FileMode  { return fi.mode }
func (fi fileInfo) ModTime() time.Time { return fi.mtime }
func (fi fileInfo) IsDir() bool        { return fi.dir }
func (fi fileInfo) Sys() any           { return nil }

func infoOf(name string, n *inode) fileInfo {
	return fileInfo{name: name, size: int64(len(n.data)), mode: n.mode, mtime: n.mtime, dir: n.dir}
}

// ---------------------------------------------------------------------------
// package-level functions mirroring package os

const (
	O_RDONLY = os.O_RDONLY
	O_WRONLY = os.O_WRONLY
	O_RDWR   = os.O_RDWR
	O_APPEND = os.O_APPEND
	O_CREATE = os.O_CREATE
	O_EXCL   = os.O_EXCL
	O_SYNC   = os.O_SYNC
	O_TRUNC  = os.O_TRUNC
)

func Stat(name string) (fs.FileInfo, error) {
	f, parts := fsFor(name)
	if f == nil {
		passthroughYield()
		return os.Stat(name)
	}
	if verifsim.Killed() {
		return nil, perr("stat", name, errDead)
	}
	fault := f.begin("stat")
	if err := ioFault(fault); err != nil {
		return nil, perr("stat", name, err)
	}
	n, err := f.lookup(parts)
	if err != nil {
		return nil, perr("stat", name, err)
	}
	if !n.dir {
		if n.lastStat == nil {
			n.lastStat = map[int]statSeen{}
		}
		n.lastStat[verifsim.CurProc()] = statSeen{mtime: n.mtime, at: verifsim.Now(), epoch: f.epoch}
	}
	return infoOf(filepath.Base(name), n), nil
}

func Lstat(name string) (fs.FileInfo, error) { return Stat(name) }

func MkdirAll(path string, perm os.FileMode) error {
	f, parts := fsFor(path)
	if f == nil {
		passthroughYield()
		return os.MkdirAll(path, perm)
	}
	if verifsim.Killed() {
		return perr("mkdir", path, errDead)
	}
	if d, err := f.lookup(parts); err == nil && d.dir {
		// Already there: no state change and nothing another process could
		// observe, so not a scheduling or fault point (keeps the 256
		// MkdirAll calls of cache.Open out of the schedule space).
		f.ByOp["mkdirall(noop)"]++
		return nil
	}
	f.begin("mkdirall")
	n := f.top
	for _, p := range parts {
		c, ok := n.children[p]
		if !ok {
			f.nino++
			c = &inode{dir: true, children: map[string]*inode{}, mode: os.ModeDir | perm, mtime: verifsim.Now(), ino: f.nino}
			n.children[p] = c
		} else if !c.dir {
			return perr("mkdir", path, syscall.ENOTDIR)
		}
		n = c
	}
	return nil
}

func Mkdir(path string, perm os.FileMode) error {
	f, parts := fsFor(path)
	if f == nil {
		passthroughYield()
		return os.Mkdir(path, perm)
	}
	if verifsim.Killed() {
		return perr("mkdir", path, errDead)
	}
	f.begin("mkdir")
	d, name, err := f.parent(parts)
	if err != nil {
		return perr("mkdir", path, err)
	}
	if _, ok := d.children[name]; ok {
		return perr("mkdir", path, syscall.EEXIST)
	}
	f.nino++
	d.children[name] = &inode{dir: true, children: map[string]*inode{}, mode: os.ModeDir | perm, mtime: verifsim.Now(), ino: f.nino}
	return nil
}

func Open(name string) (*File, error) { return OpenFile(name, os.O_RDONLY, 0) }

func Create(name string) (*File, error) {
	return OpenFile(name, os.O_RDWR|os.O_CREATE|os.O_TRUNC, 0666)
}

func OpenFile(name string, flag int, perm os.FileMode) (*File, error) {
	f, parts := fsFor(name)
	if f == nil {
		passthroughYield()
		rf, err := os.OpenFile(name, flag, perm)
		if err != nil {
			return nil, err
		}
		return &File{real: rf, name: name}, nil
	}
	if verifsim.Killed() {
		return nil, perr("open", name, errDead)
	}
	fault := f.begin("open")
	if err := ioFault(fault); err != nil {
		return nil, perr("open", name, err)
	}
	if len(parts) == 0 {
		return &File{fs: f, ino: f.top, name: name}, nil
	}
	d, base, err := f.parent(parts)
	if err != nil {
		return nil, perr("open", name, err)
	}
	n, ok := d.children[base]
	if ok {
		if flag&os.O_CREATE != 0 && flag&os.O_EXCL != 0 {
			return nil, perr("open", name, syscall.EEXIST)
		}
		if n.dir && flag&(os.O_WRONLY|os.O_RDWR) != 0 {
			return nil, perr("open", name, syscall.EISDIR)
		}
		if flag&os.O_TRUNC != 0 && !n.dir {
			n.data = n.data[:0:0]
			n.mtime = verifsim.Now()
		}
	} else {
		if flag&os.O_CREATE == 0 {
			return nil, perr("open", name, syscall.ENOENT)
		}
		f.nino++
		n = &inode{mode: perm, mtime: verifsim.Now(), ino: f.nino}
		d.children[base] = n
	}
	return &File{fs: f, ino: n, name: name, flag: flag}, nil
}

func ReadFile(name string) ([]byte, error) {
	f, _ := fsFor(name)
	if f == nil {
		passthroughYield()
		return os.ReadFile(name)
	}
	fh, err := Open(name)
	if err != nil {
		return nil, err
	}
	defer fh.Close()
	return io.ReadAll(fh)
}

func WriteFile(name string, data []byte, perm os.FileMode) error {
	f, _ := fsFor(name)
	if f == nil {
		passthroughYield()
		return os.WriteFile(name, data, perm)
	}
	fh, err := OpenFile(name, os.O_WRONLY|os.O_CREATE|os.O_TRUNC, perm)
	if err != nil {
		return err
	}
	_, err = fh.Write(data)
	if err1 := fh.Close(); err1 != nil && err == nil {
		err = err1
	}
	return err
}

func Remove(name string) error {
	f, parts := fsFor(name)
	if f == nil {
		passthroughYield()
		return os.Remove(name)
	}
	if verifsim.Killed() {
		return perr("remove", name, errDead)
	}
	fault := f.begin("remove")
	if err := ioFault(fault); err != nil {
		return perr("remove", name, err)
	}
	d, base, err := f.parent(parts)
	if err != nil {
		return perr("remove", name, err)
	}
	n, ok := d.children[base]
	if !ok {
		return perr("remove", name, syscall.ENOENT)
	}
	if n.dir && len(n.children) > 0 {
		return perr("remove", name, syscall.ENOTEMPTY)
	}
	delete(d.children, base)
	age := -1.0
	if seen, ok := n.lastStat[verifsim.CurProc()]; ok && seen.epoch == f.epoch {
		age = seen.at.Sub(seen.mtime).Seconds()
	}
	f.Removed = append(f.Removed, OpRec{Proc: verifsim.CurProc(), Kind: "remove", Path: filepath.Clean(name), StatAge: age})
	return nil
}

func RemoveAll(path string) error {
	f, parts := fsFor(path)
	if f == nil {
		passthroughYield()
		return os.RemoveAll(path)
	}
	if verifsim.Killed() {
		return perr("removeall", path, errDead)
	}
	f.begin("removeall")
	d, base, err := f.parent(parts)
	if err != nil {
		return nil
	}
	delete(d.children, base)
	return nil
}

func Rename(oldpath, newpath string) error {
	f, op := fsFor(oldpath)
	f2, np := fsFor(newpath)
	if f == nil && f2 == nil {
		passthroughYield()
		return os.Rename(oldpath, newpath)
	}
	if f == nil || f2 == nil {
		return &os.LinkError{Op: "rename", Old: oldpath, New: newpath, Err: syscall.EXDEV}
	}
	if verifsim.Killed() {
		return &os.LinkError{Op: "rename", Old: oldpath, New: newpath, Err: errDead}
	}
	fault := f.begin("rename")
	if err := ioFault(fault); err != nil {
		return &os.LinkError{Op: "rename", Old: oldpath, New: newpath, Err: err}
	}
	od, ob, err := f.parent(op)
	if err != nil {
		return &os.LinkError{Op: "rename", Old: oldpath, New: newpath, Err: err}
	}
	nd, nb, err := f.parent(np)
	if err != nil {
		return &os.LinkError{Op: "rename", Old: oldpath, New: newpath, Err: err}
	}
	n, ok := od.children[ob]
	if !ok {
		return &os.LinkError{Op: "rename", Old: oldpath, New: newpath, Err: syscall.ENOENT}
	}
	if t, ok := nd.children[nb]; ok {
		if t.dir {
			// package os checks this itself, before the system call
			return &os.LinkError{Op: "rename", Old: oldpath, New: newpath, Err: syscall.EEXIST}
		}
		if n.dir {
			return &os.LinkError{Op: "rename", Old: oldpath, New: newpath, Err: syscall.ENOTDIR}
		}
	}
	if t := nd.children[nb]; t == n {
		return nil
	}
	delete(od.children, ob)
	nd.children[nb] = n
	return nil
}

func Chtimes(name string, atime, mtime time.Time) error {
	f, parts := fsFor(name)
	if f == nil {
		passthroughYield()
		return os.Chtimes(name, atime, mtime)
	}
	if verifsim.Killed() {
		return perr("chtimes", name, errDead)
	}
	fault := f.begin("chtimes")
	if err := ioFault(fault); err != nil {
		return perr("chtimes", name, err)
	}
	n, err := f.lookup(parts)
	if err != nil {
		return perr("chtimes", name, err)
	}
	n.mtime = mtime
	return nil
}

func Truncate(name string, size int64) error {
	f, parts := fsFor(name)
	if f == nil {
		passthroughYield()
		return os.Truncate(name, size)
	}
	if verifsim.Killed() {
		return perr("truncate", name, errDead)
	}
	f.begin("truncate")
	n, err := f.lookup(parts)
	if err != nil {
		return perr("truncate", name, err)
	}
	n.resize(size)
	n.mtime = verifsim.Now()
	return nil
}

var tempCounter int

func CreateTemp(dir, pattern string) (*File, error) {
	if dir == "" {
		if cf := current(); cf != nil {
			// The process' temporary directory is part of the simulated
			// machine (in memory; no system calls): <root>/.tmp
			dir = filepath.Join(cf.root, ".tmp")
			if _, ok := cf.top.children[".tmp"]; !ok {
				cf.nino++
				cf.top.children[".tmp"] = &inode{dir: true, children: map[string]*inode{}, mode: os.ModeDir | 0777, mtime: verifsim.Now(), ino: cf.nino}
			}
		} else {
			dir = os.TempDir()
		}
	}
	f, _ := fsFor(dir)
	if f == nil {
		passthroughYield()
		rf, err := os.CreateTemp(dir, pattern)
		if err != nil {
			return nil, err
		}
		return &File{real: rf, name: rf.Name()}, nil
	}
	prefix, suffix := pattern, ""
	if i := strings.LastIndexByte(pattern, '*'); i >= 0 {
		prefix, suffix = pattern[:i], pattern[i+1:]
	}
	for i := 0; i < 10000; i++ {
		name := filepath.Join(dir, prefix+strconv.Itoa(verifsim.RandIntn(1000000000))+suffix)
		fh, err := OpenFile(name, os.O_RDWR|os.O_CREATE|os.O_EXCL, 0600)
		if os.IsExist(err) {
			continue
		}
		return fh, err
	}
	return nil, perr("createtemp", dir, syscall.EEXIST)
}

func (n *inode) resize(size int64) {
	if size < int64(len(n.data)) {
		n.data = n.data[:size]
		return
	}
	for int64(len(n.data)) < size {
		n.data = append(n.data, 0)
	}
}

// ---------------------------------------------------------------------------
// File

// File mirrors the part of *os.File the instrumented packages use.
type File struct {
	real   *os.File
	fs     *FS
	ino    *inode
	name   string
	flag   int
	pos    int64
	closed bool
}

func (f *File) Name() string { return f.name }

func (f *File) Fd() uintptr {
	if f.real != nil {
		return f.real.Fd()
	}
	return ^uintptr(0)
}

func (f *File) Close() error {
	if f.real != nil {
		return f.real.Close()
	}
	if verifsim.Killed() {
		return errDead
	}
	if f.closed {
		return perr("close", f.name, os.ErrClosed)
	}
	fault := f.fs.begin("close")
	f.closed = true
	if err := ioFault(fault); err != nil {
		return perr("close", f.name, err)
	}
	return nil
}

func (f *File) Read(b []byte) (int, error) {
	if f.real != nil {
		return f.real.Read(b)
	}
	if verifsim.Killed() {
		return 0, errDead
	}
	if f.closed {
		return 0, perr("read", f.name, os.ErrClosed)
	}
	fault := f.fs.begin("read")
	if err := ioFault(fault); err != nil {
		return 0, perr("read", f.name, err)
	}
	if len(b) == 0 {
		return 0, nil
	}
	if f.ino.dir {
		return 0, perr("read", f.name, syscall.EISDIR)
	}
	if f.flag&os.O_WRONLY != 0 {
		return 0, perr("read", f.name, syscall.EBADF)
	}
	if f.pos >= int64(len(f.ino.data)) {
		if len(b) == 0 {
			return 0, nil
		}
		return 0, io.EOF
	}
	n := copy(b, f.ino.data[f.pos:])
	f.pos += int64(n)
	return n, nil
}

func (f *File) ReadAt(b []byte, off int64) (int, error) {
	if f.real != nil {
		return f.real.ReadAt(b, off)
	}
	if verifsim.Killed() {
		return 0, errDead
	}
	f.fs.begin("read")
	if off >= int64(len(f.ino.data)) {
		return 0, io.EOF
	}
	n := copy(b, f.ino.data[off:])
	if n < len(b) {
		return n, io.EOF
	}
	return n, nil
}

func (f *File) Write(b []byte) (int, error) {
	if f.real != nil {
		return f.real.Write(b)
	}
	if verifsim.Killed() {
		return 0, errDead
	}
	if f.closed {
		return 0, perr("write", f.name, os.ErrClosed)
	}
	if f.flag&(os.O_WRONLY|os.O_RDWR) == 0 {
		return 0, perr("write", f.name, syscall.EBADF)
	}
	fault := f.fs.beginL("write", len(b), f.name)
	if fault != nil {
		switch fault.Kind {
		case "crash_write":
			k := int(fault.Arg)
			if k > len(b) {
				k = len(b)
			}
			if k < 0 {
				k = 0
			}
			f.writeAt(b[:k])
			verifsim.FaultFired(verifsim.FCrashWrite)
			verifsim.CrashCurrent()
		case "torn":
			k := int(fault.Arg)
			if k > 0 && k < len(b) {
				f.writeAt(b[:k])
				verifsim.FaultFired(verifsim.FTorn)
				verifsim.Yield()
				if verifsim.Killed() {
					return k, errDead
				}
				f.writeAt(b[k:])
				return len(b), nil
			}
		case "eio":
			verifsim.FaultFired(verifsim.FEIO)
			return 0, perr("write", f.name, syscall.EIO)
		case "enospc":
			k := int(fault.Arg)
			if k > len(b) {
				k = len(b)
			}
			if k < 0 {
				k = 0
			}
			f.writeAt(b[:k])
			verifsim.FaultFired(verifsim.FENOSPC)
			return k, perr("write", f.name, syscall.ENOSPC)
		}
	}
	f.writeAt(b)
	return len(b), nil
}

func (f *File) writeAt(b []byte) {
	if len(b) == 0 {
		return
	}
	if f.flag&os.O_APPEND != 0 {
		f.pos = int64(len(f.ino.data))
	}
	end := f.pos + int64(len(b))
	if end > int64(len(f.ino.data)) {
		f.ino.resize(end)
	}
	copy(f.ino.data[f.pos:], b)
	f.pos = end
	f.ino.mtime = verifsim.Now()
	f.fs.Bytes += int64(len(b))
}

func (f *File) WriteString(s string) (int, error) { return f.Write([]byte(s)) }

func (f *File) Seek(offset int64, whence int) (int64, error) {
	if f.real != nil {
		return f.real.Seek(offset, whence)
	}
	if verifsim.Killed() {
		return 0, errDead
	}
	switch whence {
	case io.SeekStart:
		f.pos = offset
	case io.SeekCurrent:
		f.pos += offset
	case io.SeekEnd:
		f.pos = int64(len(f.ino.data)) + offset
	}
	if f.pos < 0 {
		f.pos = 0
		return 0, perr("seek", f.name, syscall.EINVAL)
	}
	return f.pos, nil
}

func (f *File) Truncate(size int64) error {
	if f.real != nil {
		return f.real.Truncate(size)
	}
	if verifsim.Killed() {
		return errDead
	}
	fault := f.fs.begin("ftruncate")
	if err := ioFault(fault); err != nil {
		return perr("truncate", f.name, err)
	}
	if f.closed {
		return perr("truncate", f.name, os.ErrClosed)
	}
	if f.ino.dir || f.flag&(os.O_WRONLY|os.O_RDWR) == 0 {
		return perr("truncate", f.name, syscall.EINVAL)
	}
	f.ino.resize(size)
	f.ino.mtime = verifsim.Now()
	return nil
}

func (f *File) Sync() error {
	if f.real != nil {
		return f.real.Sync()
	}
	if verifsim.Killed() {
		return errDead
	}
	fault := f.fs.begin("fsync")
	if err := ioFault(fault); err != nil {
		return perr("sync", f.name, err)
	}
	return nil
}

func (f *File) Stat() (fs.FileInfo, error) {
	if f.real != nil {
		return f.real.Stat()
	}
	if verifsim.Killed() {
		return nil, errDead
	}
	f.fs.begin("fstat")
	return infoOf(filepath.Base(f.name), f.ino), nil
}

func (f *File) Chmod(mode os.FileMode) error {
	if f.real != nil {
		return f.real.Chmod(mode)
	}
	return nil
}

// Readdirnames returns the directory's entries in an order drawn from the
// tape (directory order is a real source of nondeterminism).
func (f *File) Readdirnames(n int) ([]string, error) {
	if f.real != nil {
		return f.real.Readdirnames(n)
	}
	if verifsim.Killed() {
		return nil, errDead
	}
	f.fs.begin("readdir")
	if !f.ino.dir {
		return nil, perr("readdirent", f.name, syscall.ENOTDIR)
	}
	names := make([]string, 0, len(f.ino.children))
	for k := range f.ino.children {
		names = append(names, k)
	}
	// canonical order: creation order (a function of the schedule), not the
	// names (cache file names are content hashes, which depend on absolute
	// paths of the sources)
	ch := f.ino.children
	sort.Slice(names, func(a, b int) bool {
		if ch[names[a]].ino != ch[names[b]].ino {
			return ch[names[a]].ino < ch[names[b]].ino
		}
		return names[a] < names[b]
	})
	// Exactly one draw per call, whatever the number of entries: cache file
	// names are content hashes (which depend on gob's encoding of maps
	// inside analyzer facts, i.e. on the runtime's map order), so how files
	// spread over the 256 sub-directories must not influence the number of
	// tape entries consumed.
	if r := verifsim.Choose(1 << 30); r != 0 {
		z := uint64(r) * 0x9E3779B97F4A7C15
		for i := len(names) - 1; i > 0; i-- {
			z += 0x9E3779B97F4A7C15
			x := z
			x = (x ^ (x >> 30)) * 0xBF58476D1CE4E5B9
			x = (x ^ (x >> 27)) * 0x94D049BB133111EB
			x ^= x >> 31
			j := int(x % uint64(i+1))
			names[i], names[j] = names[j], names[i]
		}
	}
	if n > 0 && len(names) > n {
		names = names[:n]
	}
	return names, nil
}

// ---------------------------------------------------------------------------
// harness-side access (no scheduling points, no faults)

// Entry is one file of a snapshot.
type Entry struct {
	Path  string
	Size  int
	Dir   bool
	MTime time.Time
	Ino   int
}

// Walk lists all files (not directories) below the root in creation order
// (which is a function of the schedule; names are content hashes).
func (f *FS) Walk() []Entry {
	var out []Entry
	var rec func(p string, n *inode)
	rec = func(p string, n *inode) {
		names := make([]string, 0, len(n.children))
		for k := range n.children {
			names = append(names, k)
		}
		sort.Strings(names)
		for _, k := range names {
			c := n.children[k]
			cp := filepath.Join(p, k)
			if c.dir {
				rec(cp, c)
			} else {
				out = append(out, Entry{Path: cp, Size: len(c.data), MTime: c.mtime, Ino: c.ino})
			}
		}
	}
	rec(f.root, f.top)
	sort.SliceStable(out, func(a, b int) bool { return out[a].Ino < out[b].Ino })
	return out
}

// Peek returns the content of a file without any simulation side effect.
func (f *FS) Peek(path string) ([]byte, bool) {
	parts, ok := f.rel(path)
	if !ok {
		return nil, false
	}
	n, err := f.lookup(parts)
	if err != nil || n.dir {
		return nil, false
	}
	return append([]byte(nil), n.data...), true
}

// Damage truncates (size >= 0) or removes (size < 0) a file, as the
// environment would between runs.
func (f *FS) Damage(path string, size int64) bool {
	parts, ok := f.rel(path)
	if !ok {
		return false
	}
	d, base, err := f.parent(parts)
	if err != nil {
		return false
	}
	n, ok := d.children[base]
	if !ok || n.dir {
		return false
	}
	if size < 0 {
		delete(d.children, base)
	} else {
		n.resize(size)
	}
	verifsim.FaultFired(verifsim.FDamage)
	return true
}

// SetMTime sets a file's modification time.
func (f *FS) SetMTime(path string, t time.Time) bool {
	parts, ok := f.rel(path)
	if !ok {
		return false
	}
	n, err := f.lookup(parts)
	if err != nil {
		return false
	}
	n.mtime = t
	return true
}

// Clone returns an independent deep copy of the disk (statistics reset).
func (f *FS) Clone() *FS {
	g := &FS{root: f.root, nino: f.nino, ByOp: map[string]int{}}
	var cp func(n *inode) *inode
	cp = func(n *inode) *inode {
		c := &inode{dir: n.dir, mtime: n.mtime, mode: n.mode, ino: n.ino}
		if n.dir {
			c.children = make(map[string]*inode, len(n.children))
			for k, v := range n.children {
				c.children[k] = cp(v)
			}
		} else {
			c.data = append([]byte(nil), n.data...)
		}
		return c
	}
	g.top = cp(f.top)
	return g
}

// Root returns the root of the simulated disk.
func (f *FS) Root() string { return f.root }
