package verifsim

import (
	"syscall"
	"unsafe"
)

const (
	futexWaitPrivate = 0 | 128
	futexWakePrivate = 1 | 128
)

// futexWait blocks while *addr == val (or returns spuriously).
//
//go:norace
func futexWait(addr *uint32, val uint32) {
	syscall.Syscall6(syscall.SYS_FUTEX, uintptr(unsafe.Pointer(addr)), futexWaitPrivate, uintptr(val), 0, 0, 0)
}

//go:norace
func futexWake(addr *uint32) {
	syscall.Syscall6(syscall.SYS_FUTEX, uintptr(unsafe.Pointer(addr)), futexWakePrivate, 1, 0, 0, 0)
}
