// Package verifsim is the deterministic simulation kernel used by the
// verification harnesses in /verif. It is copied into an instrumented
// scratch copy of the repository as honnef.co/go/tools/internal/verifsim.
//
// Tasks are real goroutines. Exactly one task holds the token and runs;
// every other task is parked on its private gate. At every yield point the
// running task computes the set of enabled tasks from the kernel's own
// model of each synchronisation primitive, draws the next task from the
// decision tape, opens that task's gate and parks itself.
//
// Everything that is touched by more than one task without program-level
// synchronisation lives in pre-allocated arrays and is accessed only from
// //go:norace functions, so that the race build (which uses gates the race
// detector cannot see) reports races of the program under test and never
// races of the kernel.
package verifsim

import (
	"fmt"
	"os"
	"runtime"
	"runtime/debug"
	"sync"
	"sync/atomic"
	"time"
	"unsafe"
)

const (
	maxTasks = 1 << 15
	maxObjs  = 1 << 14 // power of two: open addressing table
	maxProcs = 256
	maxSites = 512
)

// Strategy selects how scheduling decisions are generated when no replay
// tape is given.
type Strategy int

const (
	StratFIFO    Strategy = iota // always decision 0 (continue current, else lowest id)
	StratRandom                  // uniform among enabled tasks at every yield
	StratSwitchP                 // continue current with probability 1-p
	StratPCT                     // random priorities with d priority change points
	StratPreempt                 // sequential with k forced pre-emptions
	nStrategies
)

func (s Strategy) String() string {
	switch s {
	case StratFIFO:
		return "fifo"
	case StratRandom:
		return "random"
	case StratSwitchP:
		return "switchp"
	case StratPCT:
		return "pct"
	case StratPreempt:
		return "preempt"
	}
	return "?"
}

// Fault describes one injected fault. Faults are explicit run parameters so
// that a failing run is a pure function of (tape, faults, workload).
type Fault struct {
	Kind string `json:"kind"` // "crash" (before fs op Op of process Proc), "crash_write" (inside write op, after Arg bytes), "torn" (write op split at Arg bytes with a yield in between), "eio", "enospc"
	Proc int    `json:"proc"` // process index (spawn order, 1-based; 0 is the controller)
	Op   int    `json:"op"`   // index of the fs operation within the process
	Arg  int64  `json:"arg"`
}

// Config is everything a run depends on.
type Config struct {
	Seed      uint64
	Tape      []uint32 // non-nil: replay these decisions, generator unused
	Strategy  Strategy
	StratArg  int // PCT: d, Preempt: k, SwitchP: per-mille switch probability
	Horizon   int // expected number of decisions, for placing change points
	Procs     int // value returned by Procs()
	StepBound int
	Faults    []Fault
	RaceGates bool
	MapOrder  bool // permute map iteration order from the tape (false: canonical order)
	Epoch     time.Time
	KeepLog   bool // keep the full event log (for determinism diffs)
	Trace     bool // print events to stderr (debugging only; not under -race)
}

// Result describes what happened in a run.
type Result struct {
	Tape        []uint32
	Digest      uint64
	Steps       int
	Decisions   int
	Switches    int
	Tasks       int
	Deadlock    string // non-empty: wait-for description
	StepBound   bool
	Panics      []PanicInfo
	Fired       map[string]int
	Probes      map[string]int
	Log         []uint64
	MaxParallel int
	Uncanonical int // map sites whose keys tied under the canonical order
}

type PanicInfo struct {
	Proc  int
	Task  int
	Value string
	Stack string
}

type waitKind uint8

const (
	wNone waitKind = iota
	wLock
	wRLock // sync.RWMutex read lock
	wWLock // sync.RWMutex write lock
	wSend
	wRecv
	wOnce
	wWG
	wJoin
	wQuiesce // until the task is the only live task of its process
	wNever   // blocked for ever (e.g. receive on a channel nobody in the simulation sends on)
)

var waitNames = [...]string{"run", "lock", "rlock", "wlock", "send", "recv", "once", "wgwait", "join", "quiesce", "never"}

type task struct {
	id      int32
	proc    int32
	live    bool
	started bool
	killed  bool
	rdv     bool // woken as the passive side of an unbuffered rendezvous
	wait    waitKind
	obj     int32
	prio    int64
	prev    int32 // live list
	next    int32
	gateCh  chan struct{}
	sig     uint32 // race gates: number of times the gate was opened (written only by the token holder)
	ack     uint32 // race gates: number of openings consumed (written only by the task itself)
	fn      func()
}

type objKind uint8

const (
	oNone objKind = iota
	oMutex
	oChan
	oOnce
	oWG
	oRWMutex // owner: writer or -1; n: readers
)

type object struct {
	addr    uintptr
	keep    unsafe.Pointer // keeps the object alive so that its address is not reused during the run
	kind    objKind
	seq     int32 // first-use sequence number: the schedule-determined identity of the object
	owner   int32 // mutex: owning task or -1; once: running task or -1
	state   int32 // once: 0 fresh, 1 running, 2 done; chan: 1 closed
	n       int32 // chan: buffered elements; wg: counter
	capa    int32 // chan capacity
	nSendW  int32 // tasks parked in send
	nRecvW  int32 // tasks parked in recv
	foreign bool  // channel that something outside the simulation sends on (never modelled as enabled)
}

type process struct {
	id      int32
	name    string
	main    int32
	alive   bool // not crashed, not exited
	done    bool // all tasks gone
	crashed bool
	nlive   int32
	fsOps   int32
	stdout  []byte
	stderr  []byte
}

// Sim is one simulation. A Sim object is reused between runs of one OS
// process; Run resets it.
type Sim struct {
	cfg Config

	tasks   []task
	ntasks  int32
	head    int32 // live list head (lowest id), -1 if empty
	tail    int32
	running int32
	nlive   int32

	objs  []object
	nobjs int32

	procs  []process
	nprocs int32

	cand  []int32
	ncand int32

	rng    uint64
	tape   []uint32
	ntape  int
	rpos   int // replay position
	replay bool

	steps     int
	decisions int
	switches  int
	digest    uint64
	log       []uint64
	nlog      int

	changePts [16]int // PCT change points / pre-emption points, in decision counts
	nChange   int

	now       time.Time
	stopped   bool
	deadlock  string
	stepBound bool
	finished  chan struct{}

	panics  []PanicInfo
	npanics int

	fired  [8]int
	probes [maxSites]int
	pnames [maxSites]string
	nprobe int

	maxPar      int
	uncanonical int

	exitMu sync.Mutex

	// Ext is owned by package simos.
	Ext any
}

// cur is the active simulation, nil in pass-through mode.
// An atomic pointer: goroutines of pass-through code (free-running race tier)
// read it while no simulation runs, and the next Run writes it; a plain
// variable would be a data race of the kernel that the race detector
// (rightly) reports. The load orders nothing between tasks: only Run stores.
var curp atomic.Pointer[Sim]

// pool of one: Sims are big.
var simPool *Sim

// Active reports whether a simulation is running in this OS process.
//
//go:norace
func Active() bool { return curp.Load() != nil }

// Current returns the active simulation.
//
//go:norace
func Current() *Sim { return curp.Load() }

func newSim() *Sim {
	s := &Sim{}
	s.tasks = make([]task, maxTasks)
	s.objs = make([]object, maxObjs)
	s.procs = make([]process, maxProcs)
	s.cand = make([]int32, maxTasks)
	s.panics = make([]PanicInfo, 64)
	return s
}

//go:norace
func (s *Sim) reset(cfg Config) {
	for i := int32(0); i < s.ntasks; i++ {
		s.tasks[i] = task{}
	}
	for i := range s.objs {
		if s.objs[i].kind != oNone {
			s.objs[i] = object{}
		}
	}
	for i := int32(0); i < s.nprocs; i++ {
		s.procs[i] = process{}
	}
	for i := 0; i < s.npanics; i++ {
		s.panics[i] = PanicInfo{}
	}
	s.cfg = cfg
	s.ntasks, s.nobjs, s.nprocs, s.nlive = 0, 0, 0, 0
	s.head, s.tail, s.running = -1, -1, -1
	s.rng = cfg.Seed*0x9E3779B97F4A7C15 + 0x1234567
	s.replay = cfg.Tape != nil
	s.rpos = 0
	s.ntape = 0
	bound := cfg.StepBound
	if bound <= 0 {
		bound = 2_000_000
	}
	s.cfg.StepBound = bound
	if cap(s.tape) < bound+1024 {
		s.tape = make([]uint32, bound+1024)
	}
	s.tape = s.tape[:cap(s.tape)]
	s.steps, s.decisions, s.switches = 0, 0, 0
	s.digest = 0xcbf29ce484222325
	s.nlog = 0
	if cfg.KeepLog {
		if cap(s.log) < 4*bound {
			s.log = make([]uint64, 4*bound)
		}
		s.log = s.log[:cap(s.log)]
	}
	s.now = cfg.Epoch
	if s.now.IsZero() {
		s.now = time.Unix(1_700_000_000, 0)
	}
	s.stopped = false
	s.deadlock = ""
	s.stepBound = false
	s.finished = make(chan struct{})
	s.npanics = 0
	s.fired = [8]int{}
	for i := 0; i < s.nprobe; i++ {
		s.probes[i] = 0
		s.pnames[i] = ""
	}
	s.nprobe = 0
	s.maxPar = 0
	s.uncanonical = 0
	s.Ext = nil
	resetRegistry()

	// change points
	s.nChange = 0
	h := cfg.Horizon
	if h <= 0 {
		h = 2000
	}
	n := 0
	switch cfg.Strategy {
	case StratPCT, StratPreempt:
		n = cfg.StratArg
	}
	if n > len(s.changePts) {
		n = len(s.changePts)
	}
	for i := 0; i < n; i++ {
		s.changePts[i] = int(s.rand() % uint64(h))
	}
	s.nChange = n
}

//go:norace
func (s *Sim) rand() uint64 {
	s.rng += 0x9E3779B97F4A7C15
	z := s.rng
	z = (z ^ (z >> 30)) * 0xBF58476D1CE4E5B9
	z = (z ^ (z >> 27)) * 0x94D049BB133111EB
	return z ^ (z >> 31)
}

//go:norace
func (s *Sim) ev(kind, a, b, c uint64) {
	x := kind*0x9E3779B97F4A7C15 ^ a*0xC2B2AE3D27D4EB4F ^ b*0x165667B19E3779F9 ^ c*0x27D4EB2F165667C5
	s.digest = (s.digest ^ x) * 0x100000001b3
	s.digest ^= s.digest >> 29
	if s.cfg.KeepLog && s.nlog+4 <= len(s.log) {
		s.log[s.nlog] = kind
		s.log[s.nlog+1] = a
		s.log[s.nlog+2] = b
		s.log[s.nlog+3] = c
		s.nlog += 4
	}
	if s.cfg.Trace {
		fmt.Fprintf(os.Stderr, "ev %d: kind=%d task=%d a=%d b=%d c=%d\n", s.steps, kind, s.running, a, b, c)
	}
}

// Event kinds (only their numeric identity matters).
const (
	evSched uint64 = iota + 1
	evSpawn
	evExit
	evMap
	evFS
	evFault
	evClock
	evChoice
	evRdv
	evUser
)

// Event lets other packages (simos, harnesses) mix observable outcomes into
// the run digest.
//
//go:norace
func Event(a, b, c uint64) {
	if s := curp.Load(); s != nil {
		s.ev(evUser, a, b, c)
	}
}

// choose draws a decision in [0, n) from the tape (replay) or the generator.
// Only decisions with n > 1 are recorded.
//
//go:norace
func (s *Sim) choose(n int, gen func(s *Sim, n int) int) int {
	if n <= 1 {
		return 0
	}
	var d int
	if s.replay {
		if s.rpos < len(s.cfg.Tape) {
			d = int(s.cfg.Tape[s.rpos] % uint32(n))
		}
		s.rpos++
	} else {
		d = gen(s, n)
	}
	if s.ntape < len(s.tape) {
		s.tape[s.ntape] = uint32(d)
		s.ntape++
	}
	return d
}

//go:norace
func genUniform(s *Sim, n int) int { return int(s.rand() % uint64(n)) }

//go:norace
func genZero(s *Sim, n int) int { return 0 }

// Choose draws a value in [0,n) for harness-level choices that must be part
// of the tape (e.g. directory order, write chunking).
//
//go:norace
func Choose(n int) int {
	s := curp.Load()
	if s == nil || n <= 1 {
		return 0
	}
	var d int
	if s.cfg.Strategy == StratFIFO && !s.replay {
		d = s.choose(n, genZero)
	} else {
		d = s.choose(n, genUniform)
	}
	s.ev(evChoice, uint64(n), uint64(d), 0)
	return d
}

// ---------------------------------------------------------------------------
// gates

//go:norace
func (s *Sim) open(t *task) {
	if s.cfg.RaceGates {
		// Two single-writer counters instead of one flag: the passive side of
		// a rendezvous can be opened a second time (scheduled) before it has
		// consumed the first opening; a binary flag would lose one.
		t.sig++
		futexWake(&t.sig)
	} else {
		t.gateCh <- struct{}{}
	}
}

//go:norace
func (s *Sim) park(t *task) {
	if s.cfg.RaceGates {
		// Spin briefly, then block in a raw futex wait on the gate word. The
		// race detector sees neither (no atomics, no channel, no annotated
		// syscall wrapper), so the hand-over creates no happens-before edge;
		// the parked goroutine costs an OS thread but no CPU.
		n := 0
		for t.sig == t.ack {
			n++
			if n < 20 {
				runtime.Gosched()
			} else {
				futexWait(&t.sig, t.ack)
			}
		}
		t.ack++
	} else {
		<-t.gateCh
	}
}

// ---------------------------------------------------------------------------
// live list

//go:norace
func (s *Sim) linkLive(t *task) {
	t.prev = s.tail
	t.next = -1
	if s.tail >= 0 {
		s.tasks[s.tail].next = t.id
	} else {
		s.head = t.id
	}
	s.tail = t.id
	s.nlive++
}

//go:norace
func (s *Sim) unlinkLive(t *task) {
	if t.prev >= 0 {
		s.tasks[t.prev].next = t.next
	} else {
		s.head = t.next
	}
	if t.next >= 0 {
		s.tasks[t.next].prev = t.prev
	} else {
		s.tail = t.prev
	}
	s.nlive--
}

// ---------------------------------------------------------------------------
// enabledness

//go:norace
func (s *Sim) enabled(t *task) bool {
	if t.killed {
		return true
	}
	switch t.wait {
	case wNone:
		return true
	case wLock:
		return s.objs[t.obj].owner < 0
	case wRLock:
		// Go additionally blocks new readers while a writer waits; every
		// execution admitted here without that rule is one real Go can also
		// produce (the reader could have arrived before the writer called
		// Lock), so the model adds no behaviour. It does not find deadlocks
		// that are due to writer preference.
		return s.objs[t.obj].owner < 0
	case wWLock:
		return s.objs[t.obj].owner < 0 && s.objs[t.obj].n == 0
	case wSend:
		o := &s.objs[t.obj]
		if o.foreign {
			return false
		}
		if o.state == 1 {
			return true // will panic, as in Go
		}
		if o.capa > 0 {
			return o.n < o.capa
		}
		return o.nRecvW > 0
	case wRecv:
		o := &s.objs[t.obj]
		if o.foreign {
			return false
		}
		if o.state == 1 {
			return true
		}
		if o.capa > 0 {
			return o.n > 0
		}
		return o.nSendW > 0
	case wOnce:
		o := &s.objs[t.obj]
		return o.state != 1
	case wWG:
		return s.objs[t.obj].n == 0
	case wJoin:
		return s.procs[t.obj].done
	case wQuiesce:
		return s.procs[t.proc].nlive == 1
	case wNever:
		return false
	}
	return false
}

// reschedule is called by the running task with its wait condition set. It
// returns when the task has been chosen to proceed.
//
//go:norace
func (s *Sim) reschedule() {
	t := &s.tasks[s.running]
	if t.killed {
		s.goexit(t)
	}
	next := s.pick(t)
	if t.killed {
		// the run was stopped (deadlock, step bound) while we were running
		s.goexit(t)
	}
	if next == t {
		return
	}
	s.switches++
	s.running = next.id
	s.open(next)
	s.park(t)
	if t.rdv {
		return
	}
	if t.killed {
		s.goexit(t)
	}
	// We hold the token again. We were chosen because we were enabled at
	// the time of choice and nothing ran in between.
}

// pick chooses the next task to run. t is the current task (which may or may
// not be enabled, and may be exiting: t.live == false).
//
//go:norace
func (s *Sim) pick(t *task) *task {
	s.steps++
	if s.steps > s.cfg.StepBound && !s.stopped {
		s.stepBound = true
		s.stop()
	}
	// killed tasks are drained first, lowest id first, no decision.
	if s.stopped || s.anyKilled() {
		for i := s.head; i >= 0; i = s.tasks[i].next {
			k := &s.tasks[i]
			if k.killed && k != t {
				return k
			}
		}
		if t.live && t.killed {
			return t
		}
		if s.stopped {
			return nil
		}
	}
	n := int32(0)
	if t.live && s.enabled(t) {
		s.cand[0] = t.id
		n = 1
	}
	par := 0
	for i := s.head; i >= 0; i = s.tasks[i].next {
		k := &s.tasks[i]
		if k == t {
			if t.live && t.wait == wNone {
				par++
			}
			continue
		}
		if k.wait == wNone {
			par++
		}
		if s.enabled(k) {
			s.cand[n] = k.id
			n++
		}
	}
	if par > s.maxPar {
		s.maxPar = par
	}
	if n == 0 {
		if s.nlive == 0 {
			return nil
		}
		s.noteDeadlock(t)
		s.stop()
		if t.live {
			return t // t is now killed; reschedule will goexit it
		}
		for i := s.head; i >= 0; i = s.tasks[i].next {
			return &s.tasks[i]
		}
		return nil
	}
	s.ncand = n
	d := 0
	if n > 1 {
		d = s.choose(int(n), genSched)
		s.decisions++
	}
	c := &s.tasks[s.cand[d]]
	s.ev(evSched, uint64(t.id), uint64(t.wait)<<32|uint64(uint32(s.objSeq(t))), uint64(c.id))
	return c
}

//go:norace
func (s *Sim) anyKilled() bool {
	for i := s.head; i >= 0; i = s.tasks[i].next {
		if s.tasks[i].killed {
			return true
		}
	}
	return false
}

// genSched implements the scheduling strategies over the candidate list
// s.cand[:s.ncand] (candidate 0 is the current task if it is enabled).
//
//go:norace
func genSched(s *Sim, n int) int {
	curEnabled := s.cand[0] == s.running && s.tasks[s.running].live
	switch s.cfg.Strategy {
	case StratFIFO:
		return 0
	case StratRandom:
		return int(s.rand() % uint64(n))
	case StratSwitchP:
		p := uint64(s.cfg.StratArg)
		if p == 0 {
			p = 50
		}
		if curEnabled && s.rand()%1000 >= p {
			return 0
		}
		return int(s.rand() % uint64(n))
	case StratPreempt:
		for i := 0; i < s.nChange; i++ {
			if s.changePts[i] == s.decisions {
				if n > 1 {
					return 1 + int(s.rand()%uint64(n-1))
				}
			}
		}
		if curEnabled {
			return 0
		}
		// current task blocked: pick uniformly among the others so that the
		// order of ready tasks is not always lowest-id-first
		return int(s.rand() % uint64(n))
	case StratPCT:
		for i := 0; i < s.nChange; i++ {
			if s.changePts[i] == s.decisions && s.running >= 0 {
				s.tasks[s.running].prio = -int64(i) - 1
			}
		}
		best := 0
		for i := 1; i < n; i++ {
			if s.tasks[s.cand[i]].prio > s.tasks[s.cand[best]].prio {
				best = i
			}
		}
		return best
	}
	return 0
}

//go:norace
func (s *Sim) noteDeadlock(t *task) {
	// Build the description only here, off the hot path. fmt is fine: the
	// strings built are task-local.
	d := "deadlock:"
	for i := s.head; i >= 0; i = s.tasks[i].next {
		k := &s.tasks[i]
		p := &s.procs[k.proc]
		d += fmt.Sprintf(" [task %d proc %d(%s) waits %s obj#%d", k.id, k.proc, p.name, waitNames[k.wait], s.objSeq(k))
		if k.wait == wLock || k.wait == wOnce {
			d += fmt.Sprintf(" held by task %d", s.objs[k.obj].owner)
		}
		d += "]"
	}
	// Only a deadlock if some process' main task is among the blocked tasks.
	// Tasks left behind by a main task that is still alive count as well.
	s.deadlock = d
}

//go:norace
func (s *Sim) objSeq(k *task) int32 {
	switch k.wait {
	case wLock, wRLock, wWLock, wSend, wRecv, wOnce, wWG:
		return s.objs[k.obj].seq
	case wJoin:
		return k.obj
	}
	return -1
}

// stop tears the run down: every live task is killed and drained.
//
//go:norace
func (s *Sim) stop() {
	s.stopped = true
	for i := s.head; i >= 0; i = s.tasks[i].next {
		s.tasks[i].killed = true
	}
}

// goexit terminates the calling task. Deferred functions of the program run;
// kernel calls made from them see t.killed and do nothing.
//
//go:norace
func (s *Sim) goexit(t *task) {
	runtime.Goexit()
}

// ---------------------------------------------------------------------------
// tasks

//go:norace
func (s *Sim) newTask(proc int32, fn func()) *task {
	if s.ntasks >= maxTasks {
		panic("verifsim: too many tasks")
	}
	t := &s.tasks[s.ntasks]
	*t = task{id: s.ntasks, proc: proc, live: true, fn: fn, obj: -1}
	s.ntasks++
	if !s.cfg.RaceGates {
		t.gateCh = make(chan struct{}, 1)
	}
	t.prio = int64(s.rand()>>2) + 16
	s.linkLive(t)
	s.procs[proc].nlive++
	s.ev(evSpawn, uint64(t.id), uint64(proc), 0)
	return t
}

func (s *Sim) start(t *task) {
	go s.taskMain(t)
}

func (s *Sim) taskMain(t *task) {
	defer s.taskExit(t)
	s.parkFirst(t)
	t.fn()
}

//go:norace
func (s *Sim) parkFirst(t *task) {
	s.park(t)
	t.started = true
	if t.killed {
		s.goexit(t)
	}
}

func (s *Sim) taskExit(t *task) {
	if r := recover(); r != nil {
		s.notePanic(t, fmt.Sprint(r), string(debug.Stack()))
	}
	if s.cfg.RaceGates {
		// Order the end of every task before the harness' reads of results.
		s.exitMu.Lock()
		s.exitMu.Unlock()
	}
	s.exitKernel(t)
}

//go:norace
func (s *Sim) notePanic(t *task, val, stack string) {
	if t.killed {
		return // panics while unwinding a killed task are artefacts
	}
	if s.npanics < len(s.panics) {
		s.panics[s.npanics] = PanicInfo{Proc: int(t.proc), Task: int(t.id), Value: val, Stack: stack}
		s.npanics++
	}
	// A panicking goroutine takes the whole process down.
	s.killProc(t.proc, t)
}

//go:norace
func (s *Sim) killProc(pid int32, except *task) {
	p := &s.procs[pid]
	p.alive = false
	for i := s.head; i >= 0; i = s.tasks[i].next {
		k := &s.tasks[i]
		if k.proc == pid && k != except {
			k.killed = true
		}
	}
}

//go:norace
func (s *Sim) exitKernel(t *task) {
	p := &s.procs[t.proc]
	t.live = false
	s.unlinkLive(t)
	s.releaseOwned(t)
	p.nlive--
	s.ev(evExit, uint64(t.id), 0, 0)
	if t.id == p.main && p.alive {
		// the process exits: everything it left behind dies with it
		s.killProc(t.proc, t)
	}
	if p.nlive == 0 {
		p.done = true
		p.alive = false
	}
	if s.nlive == 0 {
		close(s.finished)
		return
	}
	for {
		next := s.pick(t)
		if next == nil {
			if s.nlive == 0 {
				close(s.finished)
				return
			}
			continue
		}
		s.running = next.id
		s.open(next)
		return
	}
}

// releaseOwned clears model ownership of mutexes held by an exiting task, so
// that a crashed process cannot block the controller's model for ever. (The
// real mutex stays locked; nobody else can reach it.)
//
//go:norace
func (s *Sim) releaseOwned(t *task) {
	if !t.killed {
		return
	}
	for i := range s.objs {
		o := &s.objs[i]
		if (o.kind == oMutex || o.kind == oRWMutex) && o.owner == t.id {
			o.owner = -1
		}
		if o.kind == oOnce && o.state == 1 && o.owner == t.id {
			o.state = 2
			o.owner = -1
		}
	}
}

// ---------------------------------------------------------------------------
// objects

//go:norace
func (s *Sim) obj(p unsafe.Pointer, kind objKind) int32 {
	addr := uintptr(p)
	h := (addr >> 3) * 0x9E3779B97F4A7C15
	i := int32(h>>40) & (maxObjs - 1)
	for {
		o := &s.objs[i]
		if o.kind == oNone {
			if s.nobjs >= maxObjs/2 {
				panic("verifsim: too many synchronisation objects")
			}
			*o = object{addr: addr, keep: p, kind: kind, seq: s.nobjs, owner: -1}
			s.nobjs++
			return i
		}
		if o.addr == addr && o.kind == kind {
			return i
		}
		i = (i + 1) & (maxObjs - 1)
	}
}

// ---------------------------------------------------------------------------
// running a simulation

// Run executes main as the main task of process 0 (the controller) and
// returns when every task has finished, been killed, or the run was stopped.
func Run(cfg Config, main func()) Result {
	if curp.Load() != nil {
		panic("verifsim: nested Run")
	}
	s := simPool
	if s == nil {
		s = newSim()
		simPool = s
	}
	if forceRaceGates {
		cfg.RaceGates = true
	}
	s.reset(cfg)
	s.procs[0] = process{id: 0, name: "controller", alive: true, main: 0}
	s.nprocs = 1
	t := s.newTask(0, main)
	curp.Store(s)
	s.running = t.id
	s.start(t)
	s.open(t)
	<-s.finished
	if cfg.RaceGates {
		s.exitMu.Lock()
		s.exitMu.Unlock()
	}
	curp.Store(nil)
	return s.result()
}

//go:norace
func (s *Sim) result() Result {
	r := Result{
		Digest:      s.digest,
		Steps:       s.steps,
		Decisions:   s.decisions,
		Switches:    s.switches,
		Tasks:       int(s.ntasks),
		Deadlock:    s.deadlock,
		StepBound:   s.stepBound,
		MaxParallel: s.maxPar,
		Uncanonical: s.uncanonical,
	}
	r.Tape = make([]uint32, s.ntape)
	copy(r.Tape, s.tape[:s.ntape])
	if s.cfg.KeepLog {
		r.Log = make([]uint64, s.nlog)
		copy(r.Log, s.log[:s.nlog])
	}
	for i := 0; i < s.npanics; i++ {
		r.Panics = append(r.Panics, s.panics[i])
	}
	r.Fired = map[string]int{}
	for i, n := range s.fired {
		if n > 0 {
			r.Fired[faultNames[i]] = n
		}
	}
	r.Probes = map[string]int{}
	for i := 0; i < s.nprobe; i++ {
		r.Probes[s.pnames[i]] = s.probes[i]
	}
	return r
}

// ProcOutputAfterRun returns what process p of the last run wrote to its
// standard streams; to be called after Run returned.
//
//go:norace
func ProcOutputAfterRun(p Proc) (stdout, stderr []byte) {
	s := simPool
	if s == nil || int32(p) >= s.nprocs {
		return nil, nil
	}
	return s.procs[p].stdout, s.procs[p].stderr
}

var faultNames = [8]string{"crash", "crash_write", "torn", "eio", "enospc", "clock", "damage", "trim"}

// FaultFired counts a fault that actually took effect.
//
//go:norace
func FaultFired(kind int) {
	if s := curp.Load(); s != nil && kind >= 0 && kind < len(s.fired) {
		s.fired[kind]++
		s.ev(evFault, uint64(kind), 0, 0)
	}
}

const (
	FCrash = iota
	FCrashWrite
	FTorn
	FEIO
	FENOSPC
	FClock
	FDamage
	FTrim
)

// Probe counts that a named condition was reached.
//
//go:norace
func Probe(name string) {
	s := curp.Load()
	if s == nil {
		return
	}
	for i := 0; i < s.nprobe; i++ {
		if s.pnames[i] == name {
			s.probes[i]++
			return
		}
	}
	if s.nprobe < maxSites {
		s.pnames[s.nprobe] = name
		s.probes[s.nprobe] = 1
		s.nprobe++
	}
}
