package verifsim

import (
	"fmt"
	"sync"
	"sync/atomic"
	"testing"
)

func cfgFor(seed uint64) Config {
	st := Strategy(seed % uint64(nStrategies))
	return Config{Seed: seed, Strategy: st, StratArg: int(seed/7%5) + 1, Horizon: 200, Procs: 4, MapOrder: true, StepBound: 100000}
}

func mustClean(t *testing.T, r Result) {
	t.Helper()
	if r.Deadlock != "" {
		t.Fatalf("deadlock: %s", r.Deadlock)
	}
	if r.StepBound {
		t.Fatalf("step bound")
	}
	if len(r.Panics) > 0 {
		t.Fatalf("panic: %s\n%s", r.Panics[0].Value, r.Panics[0].Stack)
	}
}

func TestMutexCounter(t *testing.T) {
	for seed := uint64(0); seed < 200; seed++ {
		var mu sync.Mutex
		var wg sync.WaitGroup
		n := 0
		r := Run(cfgFor(seed), func() {
			for i := 0; i < 5; i++ {
				WGAdd(&wg, 1)
				Go(func() {
					for j := 0; j < 3; j++ {
						Lock(&mu)
						v := n
						Yield()
						n = v + 1
						Unlock(&mu)
					}
					WGDone(&wg)
				})
			}
			WGWait(&wg)
		})
		mustClean(t, r)
		if n != 15 {
			t.Fatalf("seed %d: n=%d", seed, n)
		}
	}
}

func TestLostUpdateFound(t *testing.T) {
	// Without the mutex the lost update must be found by some schedule and
	// not by FIFO.
	found := 0
	for seed := uint64(0); seed < 200; seed++ {
		var wg sync.WaitGroup
		n := 0
		r := Run(cfgFor(seed), func() {
			for i := 0; i < 3; i++ {
				WGAdd(&wg, 1)
				Go(func() {
					v := n
					Yield()
					n = v + 1
					WGDone(&wg)
				})
			}
			WGWait(&wg)
		})
		mustClean(t, r)
		if n != 3 {
			found++
		}
		if Strategy(seed%uint64(nStrategies)) == StratFIFO && n != 3 {
			t.Fatalf("FIFO schedule lost an update")
		}
	}
	if found == 0 {
		t.Fatalf("lost update never found")
	}
}

func TestStoreBufferOutcomes(t *testing.T) {
	seen := map[[2]int]int{}
	for seed := uint64(0); seed < 400; seed++ {
		var x, y, r1, r2 int
		var wg sync.WaitGroup
		r := Run(cfgFor(seed), func() {
			WGAdd(&wg, 2)
			Go(func() { Yield(); x = 1; Yield(); r1 = y; WGDone(&wg) })
			Go(func() { Yield(); y = 1; Yield(); r2 = x; WGDone(&wg) })
			WGWait(&wg)
		})
		mustClean(t, r)
		seen[[2]int{r1, r2}]++
	}
	if seen[[2]int{0, 0}] != 0 {
		t.Fatalf("non-SC outcome (0,0) observed")
	}
	for _, o := range [][2]int{{0, 1}, {1, 0}, {1, 1}} {
		if seen[o] == 0 {
			t.Fatalf("outcome %v never reached: %v", o, seen)
		}
	}
}

func TestUnbufferedRendezvous(t *testing.T) {
	for seed := uint64(0); seed < 600; seed++ {
		ch := make(chan int)
		var got []int
		var sum int64
		var wg sync.WaitGroup
		cf := cfgFor(seed)
		cf.RaceGates = seed >= 300 // both gate kinds; the passive side of a rendezvous may be opened twice in a row
		r := Run(cf, func() {
			for p := 0; p < 3; p++ {
				WGAdd(&wg, 1)
				Go(func() {
					for i := 0; i < 4; i++ {
						Send(ch, p*10+i)
					}
					WGDone(&wg)
				})
			}
			Go(func() {
				WGWait(&wg)
				Close(ch)
			})
			for {
				v, ok := Recv2(ch)
				if !ok {
					break
				}
				got = append(got, v)
				sum += int64(v)
			}
		})
		mustClean(t, r)
		if len(got) != 12 || sum != (0+1+2+3)*3+10*4+20*4 {
			t.Fatalf("seed %d: got %v", seed, got)
		}
		// per-producer order is preserved
		last := map[int]int{0: -1, 1: -1, 2: -1}
		for _, v := range got {
			if v%10 <= last[v/10] {
				t.Fatalf("seed %d: order violated %v", seed, got)
			}
			last[v/10] = v % 10
		}
	}
}

func TestBufferedSemaphore(t *testing.T) {
	for seed := uint64(0); seed < 300; seed++ {
		sem := make(chan struct{}, 2)
		var inside, maxInside int32
		var wg sync.WaitGroup
		tryOK, tryFail := 0, 0
		r := Run(cfgFor(seed), func() {
			for i := 0; i < 6; i++ {
				WGAdd(&wg, 1)
				Go(func() {
					if i%2 == 0 {
						Send(sem, struct{}{})
					} else {
						if !TrySend(sem, struct{}{}) {
							tryFail++
							WGDone(&wg)
							return
						}
						tryOK++
					}
					v := atomic.AddInt32(&inside, 1)
					if v > maxInside {
						maxInside = v
					}
					Yield()
					atomic.AddInt32(&inside, -1)
					Recv(sem)
					WGDone(&wg)
				})
			}
			WGWait(&wg)
		})
		mustClean(t, r)
		if maxInside > 2 {
			t.Fatalf("seed %d: semaphore exceeded: %d", seed, maxInside)
		}
		if len(sem) != 0 {
			t.Fatalf("seed %d: semaphore not empty at end", seed)
		}
	}
}

func TestCloseWakesAll(t *testing.T) {
	for seed := uint64(0); seed < 100; seed++ {
		done := make(chan struct{})
		var wg sync.WaitGroup
		woke := 0
		r := Run(cfgFor(seed), func() {
			for i := 0; i < 4; i++ {
				WGAdd(&wg, 1)
				Go(func() {
					Recv(done)
					woke++
					WGDone(&wg)
				})
			}
			_, _, sel := TryRecv(done)
			if sel {
				panic("selected on open channel")
			}
			Yield()
			Close(done)
			_, ok, sel := TryRecv(done)
			if !sel || ok {
				panic("closed channel must be selected with ok=false")
			}
			WGWait(&wg)
		})
		mustClean(t, r)
		if woke != 4 {
			t.Fatalf("woke=%d", woke)
		}
	}
}

func TestOnce(t *testing.T) {
	for seed := uint64(0); seed < 200; seed++ {
		var once sync.Once
		var wg sync.WaitGroup
		ran := 0
		val := 0
		bad := false
		r := Run(cfgFor(seed), func() {
			for i := 0; i < 4; i++ {
				WGAdd(&wg, 1)
				Go(func() {
					OnceDo(&once, func() {
						ran++
						Yield()
						Yield()
						val = 42
					})
					if val != 42 {
						bad = true // Do returned before the first call completed
					}
					WGDone(&wg)
				})
			}
			WGWait(&wg)
		})
		mustClean(t, r)
		if ran != 1 || bad {
			t.Fatalf("seed %d: ran=%d bad=%v", seed, ran, bad)
		}
	}
}

func TestDeadlockDetected(t *testing.T) {
	dl := 0
	for seed := uint64(0); seed < 200; seed++ {
		var a, b sync.Mutex
		var wg sync.WaitGroup
		r := Run(cfgFor(seed), func() {
			WGAdd(&wg, 2)
			Go(func() {
				Lock(&a)
				Yield()
				Lock(&b)
				Unlock(&b)
				Unlock(&a)
				WGDone(&wg)
			})
			Go(func() {
				Lock(&b)
				Yield()
				Lock(&a)
				Unlock(&a)
				Unlock(&b)
				WGDone(&wg)
			})
			WGWait(&wg)
		})
		if r.Deadlock != "" {
			dl++
		}
	}
	if dl == 0 || dl == 200 {
		t.Fatalf("deadlocks found in %d of 200 schedules", dl)
	}
}

func TestStepBound(t *testing.T) {
	c := cfgFor(3)
	c.StepBound = 1000
	r := Run(c, func() {
		Go(func() {
			for {
				Yield()
			}
		})
		for {
			Yield()
		}
	})
	if !r.StepBound {
		t.Fatalf("step bound not reported")
	}
}

func TestReplayDeterminism(t *testing.T) {
	prog := func(out *[]int) func() {
		return func() {
			ch := make(chan int)
			buf := make(chan int, 3)
			var mu sync.Mutex
			var wg sync.WaitGroup
			m := map[string]int{"a": 1, "b": 2, "c": 3, "d": 4, "e": 5}
			for i := 0; i < 4; i++ {
				WGAdd(&wg, 1)
				Go(func() {
					Lock(&mu)
					*out = append(*out, i)
					Unlock(&mu)
					Send(buf, i)
					Send(ch, Recv(buf))
					WGDone(&wg)
				})
			}
			for i := 0; i < 4; i++ {
				v := Recv(ch)
				*out = append(*out, 100+v)
			}
			for _, k := range MapKeys(m) {
				*out = append(*out, m[k]*1000)
			}
			WGWait(&wg)
		}
	}
	distinct := map[uint64]bool{}
	for seed := uint64(1); seed < 150; seed++ {
		var o1, o2, o3 []int
		c := cfgFor(seed)
		c.KeepLog = true
		r1 := Run(c, prog(&o1))
		r2 := Run(c, prog(&o2))
		mustClean(t, r1)
		if r1.Digest != r2.Digest || fmt.Sprint(o1) != fmt.Sprint(o2) || fmt.Sprint(r1.Log) != fmt.Sprint(r2.Log) {
			t.Fatalf("seed %d: same seed, different run: %v vs %v", seed, o1, o2)
		}
		// replay from the tape alone, with a different seed and strategy
		c3 := Config{Seed: 999, Tape: r1.Tape, Strategy: StratRandom, Procs: 4, MapOrder: true, StepBound: 100000, KeepLog: true}
		r3 := Run(c3, prog(&o3))
		if r1.Digest != r3.Digest || fmt.Sprint(o1) != fmt.Sprint(o3) {
			t.Fatalf("seed %d: replay differs: %v vs %v", seed, o1, o3)
		}
		distinct[r1.Digest] = true
	}
	if len(distinct) < 50 {
		t.Fatalf("only %d distinct executions in 150 seeds", len(distinct))
	}
}

func TestProcessesAndKill(t *testing.T) {
	cleanups := 0
	defer func() {
		if cleanups == 0 || cleanups == 100 {
			t.Fatalf("cleanups=%d", cleanups)
		}
	}()
	for seed := uint64(0); seed < 100; seed++ {
		steps := 0
		cleanup := 0
		r := Run(cfgFor(seed), func() {
			p := Spawn("worker", func() {
				ch := make(chan int)
				Go(func() {
					defer func() { cleanup++ }()
					Recv(ch) // blocks for ever; dies with the process
				})
				for i := 0; i < 5; i++ {
					Yield()
					steps++
				}
			})
			Join(p)
			q := Spawn("crasher", func() {
				var mu sync.Mutex
				Lock(&mu)
				defer Unlock(&mu)
				Go(func() { Lock(&mu); Unlock(&mu) })
				Yield()
				CrashCurrent()
				steps = -1000
			})
			Join(q)
			if !Crashed(q) {
				panic("not crashed")
			}
		})
		mustClean(t, r)
		if steps != 5 || cleanup > 1 {
			t.Fatalf("steps=%d cleanup=%d", steps, cleanup)
		}
		cleanups += cleanup
	}
}

func TestPanicKillsProcess(t *testing.T) {
	r := Run(cfgFor(5), func() {
		p := Spawn("p", func() {
			Go(func() {
				for {
					Yield()
				}
			})
			Yield()
			panic("boom")
		})
		Join(p)
	})
	if len(r.Panics) != 1 || r.Panics[0].Value != "boom" || r.Deadlock != "" || r.StepBound {
		t.Fatalf("%+v", r)
	}
}

func TestPassthrough(t *testing.T) {
	var mu sync.Mutex
	var wg sync.WaitGroup
	ch := make(chan int, 1)
	n := 0
	for i := 0; i < 10; i++ {
		WGAdd(&wg, 1)
		Go(func() {
			Lock(&mu)
			n++
			Unlock(&mu)
			Send(ch, 1)
			Recv(ch)
			WGDone(&wg)
		})
	}
	WGWait(&wg)
	if n != 10 {
		t.Fatal(n)
	}
}

func TestRWMutex(t *testing.T) {
	for seed := uint64(0); seed < 300; seed++ {
		var rw sync.RWMutex
		var wg sync.WaitGroup
		readers, writers, bad := 0, 0, false
		val := 0
		r := Run(cfgFor(seed), func() {
			for i := 0; i < 3; i++ {
				WGAdd(&wg, 2)
				Go(func() {
					RLock(&rw)
					readers++
					if writers != 0 {
						bad = true
					}
					Yield()
					readers--
					RUnlock(&rw)
					WGDone(&wg)
				})
				Go(func() {
					RWLock(&rw)
					writers++
					if writers != 1 || readers != 0 {
						bad = true
					}
					v := val
					Yield()
					val = v + 1
					writers--
					RWUnlock(&rw)
					WGDone(&wg)
				})
			}
			WGWait(&wg)
		})
		mustClean(t, r)
		if bad || val != 3 {
			t.Fatalf("seed %d: bad=%v val=%d", seed, bad, val)
		}
	}
}
