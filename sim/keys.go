package verifsim

import (
	"bytes"
	"fmt"
	"go/ast"
	"go/token"
	"go/types"
	"io"
	"iter"
	"os"
	"reflect"
	"strconv"
	"sync"
	"unsafe"
)

// YieldThen is a scheduling point followed by f (used for sync/atomic calls
// without a result in statement position).
func YieldThen(f func()) {
	Yield()
	f()
}

// KeyOf returns the canonical ordering key of a map key: a string that is a
// function of the key's meaning and never of its address. The empty string
// means "no canonical key" (pointer without identity): such keys tie, the
// tie is counted, and their relative order stays the runtime's.
func KeyOf[K any](k K) string { return keyOfAny(any(k)) }

func keyOfAny(k any) string {
	switch k := k.(type) {
	case nil:
		return "<nil>"
	case string:
		return k
	case int:
		return fmt.Sprintf("%020d", k)
	case int64:
		return fmt.Sprintf("%020d", k)
	case int32:
		return fmt.Sprintf("%020d", k)
	case uint64:
		return fmt.Sprintf("%020d", k)
	case uint32:
		return fmt.Sprintf("%020d", k)
	case bool:
		return strconv.FormatBool(k)
	case token.Pos:
		return fmt.Sprintf("%020d", int(k))
	case token.Position:
		return fmt.Sprintf("%s:%09d:%09d", k.Filename, k.Line, k.Column)
	case *types.Package:
		if k == nil {
			return "<nilpkg>"
		}
		return k.Path()
	case types.Object:
		// No absolute positions: for objects of imported packages they
		// depend on the order in which export data was read (file bases in
		// the FileSet), which is not under the simulator's control. The
		// position only breaks ties between equally-printed objects of one
		// package, whose relative positions are stable.
		p := ""
		if k.Pkg() != nil {
			p = k.Pkg().Path()
		}
		return fmt.Sprintf("%s\x00%s\x00%T\x00%012d", p, types.ObjectString(k, nil), k, int(k.Pos()))
	case *ast.Ident:
		return fmt.Sprintf("%012d\x00%s", int(k.Pos()), k.Name)
	case ast.Node:
		// syntax of the package being analysed: positions are local to its
		// own FileSet and deterministic
		return fmt.Sprintf("%012d\x00%012d\x00%T", int(k.Pos()), int(k.End()), k)
	case *types.TypeParam:
		return fmt.Sprintf("%012d\x00%s", int(k.Obj().Pos()), k.Obj().Name())
	case reflect.Type:
		return k.PkgPath() + "\x00" + k.String()
	case types.Type:
		return types.TypeString(k, nil)
	}
	v := reflect.ValueOf(k)
	if v.Kind() == reflect.Pointer {
		if seq, ok := registered(v.UnsafePointer()); ok {
			return fmt.Sprintf("#%012d", seq)
		}
	}
	if s, ok := k.(fmt.Stringer); ok {
		return s.String()
	}
	switch v.Kind() {
	case reflect.Struct:
		out := ""
		for i := 0; i < v.NumField(); i++ {
			f := v.Field(i)
			if f.CanInterface() {
				out += keyOfAny(f.Interface()) + "\x01"
			} else {
				switch f.Kind() {
				case reflect.String:
					out += f.String() + "\x01"
				case reflect.Int, reflect.Int64, reflect.Int32:
					out += fmt.Sprintf("%020d\x01", f.Int())
				}
			}
		}
		return out
	case reflect.String:
		return v.String()
	case reflect.Int, reflect.Int8, reflect.Int16, reflect.Int32, reflect.Int64:
		return fmt.Sprintf("%020d", v.Int())
	case reflect.Uint, reflect.Uint8, reflect.Uint16, reflect.Uint32, reflect.Uint64:
		return fmt.Sprintf("%020d", v.Uint())
	}
	return ""
}

// Register gives a pointer allocated in instrumented code a
// schedule-determined identity (its registration sequence number), so that
// it can serve as a canonical map key.
func Register[T any](p *T) *T {
	if s := curp.Load(); s != nil {
		s.register(unsafe.Pointer(p))
	}
	return p
}

const maxReg = 1 << 14

type regEntry struct {
	p   unsafe.Pointer
	seq int32
}

var regTable [maxReg]regEntry
var regCount int32

//go:norace
func (s *Sim) register(p unsafe.Pointer) {
	if regCount >= maxReg/2 {
		return
	}
	i := int((uintptr(p)>>4)*0x9E3779B97F4A7C15>>40) & (maxReg - 1)
	for regTable[i].p != nil {
		if regTable[i].p == p {
			return
		}
		i = (i + 1) & (maxReg - 1)
	}
	regTable[i] = regEntry{p: p, seq: regCount}
	regCount++
}

//go:norace
func registered(p unsafe.Pointer) (int32, bool) {
	if curp.Load() == nil {
		return 0, false
	}
	i := int((uintptr(p)>>4)*0x9E3779B97F4A7C15>>40) & (maxReg - 1)
	for regTable[i].p != nil {
		if regTable[i].p == p {
			return regTable[i].seq, true
		}
		i = (i + 1) & (maxReg - 1)
	}
	return 0, false
}

//go:norace
func resetRegistry() {
	if regCount == 0 {
		return
	}
	for i := range regTable {
		regTable[i] = regEntry{}
	}
	regCount = 0
}

// MapKeysSeq replaces maps.Keys.
func MapKeysSeq[K comparable, V any](m map[K]V) iter.Seq[K] {
	return func(yield func(K) bool) {
		for _, k := range MapKeys(m) {
			if _, ok := m[k]; !ok {
				continue
			}
			if !yield(k) {
				return
			}
		}
	}
}

// MapValuesSeq replaces maps.Values.
func MapValuesSeq[K comparable, V any](m map[K]V) iter.Seq[V] {
	return func(yield func(V) bool) {
		for _, k := range MapKeys(m) {
			v, ok := m[k]
			if !ok {
				continue
			}
			if !yield(v) {
				return
			}
		}
	}
}

// ---------------------------------------------------------------------------
// standard streams per simulated process

type procWriter struct{ stderr bool }

var (
	captureMu  sync.Mutex
	captureOut *bytes.Buffer
	captureErr *bytes.Buffer
)

// CapturePassthrough redirects what instrumented code prints while no
// simulation runs (free-running tiers) into the given buffers; nil restores
// the real streams.
func CapturePassthrough(stdout, stderr *bytes.Buffer) {
	captureMu.Lock()
	captureOut, captureErr = stdout, stderr
	captureMu.Unlock()
}

func (w procWriter) Write(b []byte) (int, error) {
	s := curp.Load()
	if s == nil {
		captureMu.Lock()
		defer captureMu.Unlock()
		if w.stderr {
			if captureErr != nil {
				return captureErr.Write(b)
			}
			return os.Stderr.Write(b)
		}
		if captureOut != nil {
			return captureOut.Write(b)
		}
		return os.Stdout.Write(b)
	}
	s.procWrite(w.stderr, b)
	return len(b), nil
}

//go:norace
func (s *Sim) procWrite(stderr bool, b []byte) {
	p := &s.procs[s.tasks[s.running].proc]
	if stderr {
		p.stderr = append(p.stderr, b...)
	} else {
		p.stdout = append(p.stdout, b...)
	}
}

// Stdout replaces os.Stdout in instrumented packages.
func Stdout() io.Writer { return procWriter{false} }

// Stderr replaces os.Stderr in instrumented packages.
func Stderr() io.Writer { return procWriter{true} }

// ProcOutput returns what process p wrote to its standard streams.
//
//go:norace
func ProcOutput(p Proc) (stdout, stderr []byte) {
	s := curp.Load()
	return s.procs[p].stdout, s.procs[p].stderr
}
